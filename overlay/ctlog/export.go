//go:build verif

package ctlog

// Handles for the verification harness (compiled in through -overlay, never
// present in /repo). Nothing here changes behaviour; it only exposes unexported
// identifiers, in the manner of export_test.go.

import (
	"crawshaw.io/sqlite"
	"context"
	"sync"
	"crypto/ecdsa"
	"crypto/sha256"

	"filippo.io/sunlight"
	"golang.org/x/mod/sumdb/tlog"
)

func VerifSetClock(f func() int64) { timeNowUnixMilli = f }

type VerifWaitFunc = func(ctx context.Context) (*sunlight.LogEntry, error)

func (l *Log) VerifAddLeafToPool(ctx context.Context, e *PendingLogEntry, low bool) (VerifWaitFunc, string) {
	f, src := l.addLeafToPool(ctx, e, low)
	return VerifWaitFunc(f), src
}

func (l *Log) VerifSequence(ctx context.Context) error { return l.sequence(ctx) }

// VerifMutexHeld reports whether one of the mutexes that sunlight holds across
// backend calls is currently held.
func (l *Log) VerifMutexHeld() bool {
	if !l.issuersMu.TryLock() {
		return true
	}
	l.issuersMu.Unlock()
	if !l.rootsMu.TryLock() {
		return true
	}
	l.rootsMu.Unlock()
	return false
}

// VerifPool returns the occupancy of the current pool and the pending indexes
// of its low-priority entries.
func (l *Log) VerifPool() (pending int, low []int) {
	l.poolMu.Lock()
	defer l.poolMu.Unlock()
	for i := range l.currentPool.lowPriority {
		low = append(low, i)
	}
	return len(l.currentPool.pendingLeaves), low
}

// VerifNarrowLowPriority removes every low-priority entry except keep from the
// current pool's eviction candidates and returns a function that puts them
// back (minus whatever was evicted meanwhile).
func (l *Log) VerifNarrowLowPriority(keep int) (restore func()) {
	l.poolMu.Lock()
	defer l.poolMu.Unlock()
	p := l.currentPool
	saved := map[int]func(){}
	for i, c := range p.lowPriority {
		if i != keep {
			saved[i] = c
			delete(p.lowPriority, i)
		}
	}
	return func() {
		l.poolMu.Lock()
		defer l.poolMu.Unlock()
		if l.currentPool != p {
			return
		}
		for i, c := range saved {
			p.lowPriority[i] = c
		}
	}
}

func (l *Log) VerifTree() (n int64, hash [32]byte, t int64) {
	return l.tree.N, l.tree.Hash, l.tree.Time
}

func (l *Log) VerifConfig() *Config { return l.c }

var (
	VerifErrPoolFull = errPoolFull
	VerifErrEvicted  = errEvicted
	VerifErrFatal    = errFatal
)

func VerifStagingPath(n int64, h [32]byte) string {
	return stagingPath(tlog.Tree{N: n, Hash: tlog.Hash(h)})
}

func VerifLogID(key *ecdsa.PrivateKey) ([sha256.Size]byte, error) { return logIDFromKey(key) }

func VerifCacheHash(cert []byte, isPrecert bool, ikh [32]byte) [32]byte {
	return [32]byte(computeCacheHash(cert, isPrecert, ikh))
}

// VerifSignTreeHead signs an arbitrary tree head with the configuration's keys.
func VerifSignTreeHead(c *Config, n int64, h [32]byte, t int64) ([]byte, error) {
	return signTreeHead(c, treeWithTimestamp{Tree: tlog.Tree{N: n, Hash: tlog.Hash(h)}, Time: t})
}

// VerifConn exposes the SQLite connection of a lock backend (to install a tracer).
func (b *SQLiteBackend) VerifConn() *sqlite.Conn { return b.conn }

func (b *SQLiteBackend) VerifClose() error {
	b.mu.Lock()
	defer b.mu.Unlock()
	return b.conn.Close()
}

// VerifCacheReadConn exposes the deduplication-cache read connection (to
// install a statement tracer).
func (l *Log) VerifCacheReadConn() *sqlite.Conn { return l.cacheRead }

// VerifPoolMuHeld reports whether poolMu is currently held.
func (l *Log) VerifPoolMuHeld() bool {
	if !l.poolMu.TryLock() {
		return true
	}
	l.poolMu.Unlock()
	return false
}

// VerifYield, when set, is called before every acquisition of poolMu (the
// calls are inserted into a build-time copy of ctlog.go by tools/mkoverlay.py).
var VerifYield func(mu sync.Locker)

func verifYield(mu sync.Locker) {
	if f := VerifYield; f != nil {
		f(mu)
	}
}

// VerifPoolMuAddr identifies the log a yield belongs to.
func (l *Log) VerifPoolMuAddr() sync.Locker { return &l.poolMu }

func (l *Log) VerifRootsMuAddr() sync.Locker { return &l.rootsMu }

// VerifYieldPoint, when set, is called after every close of a pool's done
// channel (inserted by tools/mkoverlay.py like verifYield).
var VerifYieldPoint func()

func verifYieldPoint() {
	if f := VerifYieldPoint; f != nil {
		f()
	}
}
