// Package fs (fssim) runs the real LocalBackend and internal/durable over the
// simulated file system simos, under the seeded scheduler, and checks C13.
package fs

import (
	"bytes"
	"context"
	"encoding/json"
	"fmt"
	"io"
	"log/slog"
	"runtime/debug"
	"sort"
	"strings"
	"testing"
	"testing/synctest"
	"time"

	"filippo.io/sunlight/internal/ctlog"
	"filippo.io/sunlight/internal/verifsim/core"
	"filippo.io/sunlight/internal/verifsim/simos"
)

const storeDir = "/store"

// Profile is the swarm configuration of one run.
type Profile struct {
	Prop      string `json:"prop"`
	Tag       string `json:"tag"`
	Ops       int    `json:"ops"`
	MaxConc   int    `json:"max_conc"`
	FaultW    int    `json:"fault_w"`
	Sweep     bool   `json:"sweep"`    // crash check after every step
	CrashPct  int    `json:"crash_pct"` // otherwise: probability per step
	Ordered   bool   `json:"ordered"`  // ordered-journal persistence model instead of strict POSIX
	RootExists bool  `json:"root_exists"`
	BigPct    int    `json:"big_pct"`
	BadKeyPct int    `json:"bad_key_pct"`
	NoChattr  bool   `json:"no_chattr"`
	Steps     int    `json:"steps"`
}

func MakeProfile(prop string, seed uint64, tier string) *Profile {
	r := core.NewRand(core.Mix(seed, 0xf5f5))
	p := &Profile{Prop: prop, Ops: 2 + r.Intn(6), MaxConc: 1 + r.Intn(3), Steps: 400}
	p.RootExists = r.Chance(3, 4)
	p.NoChattr = r.Chance(1, 2)
	p.Ordered = r.Chance(1, 3)
	p.Sweep = r.Chance(1, 2)
	p.CrashPct = []int{10, 30}[r.Intn(2)]
	p.BigPct = []int{0, 5, 15}[r.Intn(3)]
	p.BadKeyPct = []int{0, 10, 25}[r.Intn(3)]
	p.Tag = "faultfree"
	if r.Chance(1, 2) {
		p.FaultW = []int{2, 6}[r.Intn(2)]
		p.Tag = "iofaults"
	}
	if p.Ordered {
		p.Tag += "+ordered"
	} else {
		p.Tag += "+strict"
	}
	return p
}

func (p *Profile) JSON() json.RawMessage { b, _ := json.Marshal(p); return b }

func ProfileFromJSON(b []byte) (*Profile, error) {
	p := &Profile{}
	return p, json.Unmarshal(b, p)
}

type upl struct {
	id      int
	kind    string // up, get, del
	key     string
	data    []byte
	imm     bool
	invoke  int
	ret     int // -1 while in flight
	err     error
	got     []byte
	bad     bool // key that must be refused
	panicked string
	faulted bool // an I/O fault was injected into this call
}

type world struct {
	sim  *core.Sim
	prof *Profile
	fs   *simos.FS
	be   *ctlog.LocalBackend
	ops  []*upl // planned workload
	next int
	all  []*upl // started
	done []*upl // finished since last quiescence
	inflight int
	crashImages int
	lastOps int
	replaying bool
}

var goodKeys = []string{"a", "d1/a", "d1/b", "d1/d2/c", "d1/d2/e", "d3/x", "checkpoint", "tile/0/000", "tile/0/x001/234.p/5", "tile/data/x001/234"}
var badKeys = []string{"../esc", "/abs", "", "a/../../b", "a\x00b", "d1/../../esc", "..", "a//b", "d1/../../../etc/passwd", "./a",
	// siblings whose name has the configured directory as a string prefix
	"../store2/checkpoint", "../storeX", "../store-old/d1/a", "d1/../../store2/a"}

func (w *world) v(class, format string, a ...any) { w.sim.Violate("C13", class, format, a...) }

func (w *world) build() {
	p := w.prof
	r := core.NewRand(core.Mix(w.sim.Seed, 0xabc))
	sizes := []int{0, 0, 1, 100, 16383, 16384, 16385, 40000}
	content := func(id, n int) []byte {
		b := make([]byte, n)
		rr := core.NewRand(core.Mix(w.sim.Seed, uint64(id)+77))
		for i := range b {
			if i%8 == 0 {
				v := rr.Uint64()
				for j := 0; j < 8 && i+j < n; j++ {
					b[i+j] = byte(v >> (8 * j))
				}
			}
		}
		// make every payload unique even when empty-ish: uniqueness matters only
		// for attribution, sizes 0 and 1 collide by construction and are handled.
		return b
	}
	immKeys := map[string][]byte{}
	for i := 0; i < p.Ops; i++ {
		u := &upl{id: i, ret: -1}
		switch x := r.Intn(10); {
		case x < 6:
			u.kind = "up"
		case x < 8:
			u.kind = "get"
		case x < 9:
			u.kind = "del"
		default:
			u.kind = "up"
		}
		if r.Chance(p.BadKeyPct, 100) {
			u.key = badKeys[r.Intn(len(badKeys))]
			u.bad = true
		} else {
			u.key = goodKeys[r.Intn(len(goodKeys))]
		}
		if u.kind == "up" {
			n := sizes[r.Intn(len(sizes))]
			if r.Chance(p.BigPct, 100) {
				n = 2<<20 + r.Intn(1<<20)
			}
			u.data = content(i, n)
			u.imm = u.key != "checkpoint" && r.Chance(2, 3)
			if prev, ok := immKeys[u.key]; ok {
				// an immutable key: re-upload equal or different content; the
				// different content is often a near miss of the stored bytes
				u.imm = true
				switch x := r.Intn(8); {
				case x < 3:
					u.data = prev
				case x == 3 && len(prev) > 1:
					u.data = bytes.Clone(prev[:len(prev)-1]) // strict prefix
				case x == 4 && len(prev) > 2:
					u.data = bytes.Clone(prev[:len(prev)/2])
				case x == 5:
					u.data = append(bytes.Clone(prev), 0) // extension
				case x == 6 && len(prev) > 0:
					u.data = bytes.Clone(prev)
					u.data[r.Intn(len(prev))] ^= 1 // same length, one bit
				}
			} else if u.imm {
				immKeys[u.key] = u.data
			}
		}
		w.ops = append(w.ops, u)
	}
}

func (w *world) hook(op, path string) string {
	o := &core.Op{ID: w.sim.NewOpID(0, 0, op, path), Kind: op, Key: path, Mut: op != "stat" && op != "read" && op != "open", Inst: w.fs.Owner}
	out := w.sim.Park(o)
	if out == core.OutOK {
		return ""
	}
	return out
}

func (w *world) start(u *upl) {
	u.invoke = w.sim.Step
	w.all = append(w.all, u)
	w.inflight++
	w.fs.Owner = u.id + 1
	go func() {
		defer func() {
			if r := recover(); r != nil {
				u.err = fmt.Errorf("panic: %v", r)
				if r == simos.ErrBudget {
					u.panicked = "budget"
				} else {
					u.panicked = fmt.Sprint(r) + "\n" + string(debug.Stack())
				}
			}
			u.ret = w.sim.Step
			w.done = append(w.done, u)
			w.inflight--
		}()
		ctx := context.Background()
		switch u.kind {
		case "up":
			var opts *ctlog.UploadOptions
			if u.imm {
				opts = &ctlog.UploadOptions{Immutable: true}
			} else if len(u.data)%2 == 0 {
				opts = &ctlog.UploadOptions{}
			}
			u.err = w.be.Upload(ctx, u.key, u.data, opts)
		case "get":
			u.got, u.err = w.be.Fetch(ctx, u.key)
		case "del":
			u.err = w.be.Discard(ctx, u.key)
		}
	}()
}

// ---------------------------------------------------------------------------

func Run(t *testing.T, seed uint64, prof *Profile, replay []core.Cmd, keepLog bool) *core.RunResult {
	start := time.Now()
	sim := core.NewSim(seed)
	sim.KeepLog(keepLog)
	w := &world{sim: sim, prof: prof}
	var infra string
	func() {
		defer func() {
			if r := recover(); r != nil {
				s := fmt.Sprint(r)
				if strings.Contains(s, "deadlock: main bubble goroutine has exited") {
					return
				}
				infra = "panic: " + s + "\n" + string(debug.Stack())
			}
		}()
		synctest.Test(t, func(t *testing.T) {
			defer func() {
				if r := recover(); r != nil {
					infra = "panic in bubble: " + fmt.Sprint(r) + "\n" + string(debug.Stack())
				}
			}()
			w.main(replay)
		})
	}()
	simos.Current = nil
	lastTrace = sim.Trace
	res := &core.RunResult{Seed: seed, Profile: prof.JSON(), ProfileTag: prof.Tag, Steps: sim.Step,
		LogHash: sim.LogHash(), SchedHash: core.SchedHash(sim.Trace), Faults: core.FaultCounts(sim.Trace),
		Probes: sim.Probes, Violations: sim.Viol, Infra: infra, WallMicros: time.Since(start).Microseconds()}
	res.Nontrivial = len(res.Faults) > 0 || sim.Probes["concurrent.parked"] > 0 || sim.Probes["crash.images"] > 0
	if keepLog {
		res.Sample = sim.Log()
	}
	return res
}

var lastTrace []core.Cmd

func (w *world) main(replay []core.Cmd) {
	p := w.prof
	sim := w.sim
	w.replaying = replay != nil
	w.fs = simos.New()
	w.fs.Confine = storeDir
	w.fs.NoChattr = p.NoChattr
	simos.Current = w.fs
	simos.Budget = 0
	if p.RootExists {
		simos.Mkdir(storeDir, 0o755)
		d, _ := simos.Open(storeDir)
		d.Sync()
		d.Close()
		r, _ := simos.Open("/")
		r.Sync()
		r.Close()
	}
	be, err := ctlog.NewLocalBackend(context.Background(), storeDir, slog.New(slog.NewTextHandler(io.Discard, nil)))
	if err != nil {
		panic(err)
	}
	w.be = be
	w.build()
	w.fs.Hook = w.hook
	simos.Budget = 200000
	ri := 0
	for sim.Step < p.Steps {
		synctest.Wait()
		w.quiesce()
		var cmd core.Cmd
		if replay != nil {
			if ri >= len(replay) {
				break
			}
			cmd = replay[ri]
			ri++
		} else {
			en := w.enabled()
			if len(en) == 0 {
				break
			}
			cmd = sim.Choose(en)
		}
		if w.exec(cmd) {
			sim.Trace = append(sim.Trace, cmd)
			sim.Logf("cmd %s", cmd.String())
			sim.Step++
		}
	}
	// drain: everything in flight completes without faults
	for i := 0; i < 5000; i++ {
		synctest.Wait()
		w.quiesce()
		ops := sim.Parked()
		if len(ops) == 0 {
			break
		}
		w.fs.Owner = ops[0].Inst
		sim.Release(ops[0], core.OutOK)
	}
	synctest.Wait()
	w.quiesce()
	if w.inflight > 0 {
		w.v("hang", "%d calls never returned", w.inflight)
	}
	w.crashCheck(true)
	w.liveCheck()
	if len(w.fs.Escapes) > 0 {
		w.v("escape", "access outside the configured directory: %v", w.fs.Escapes)
	}
}

func (w *world) enabled() []core.WCmd {
	p := w.prof
	var out []core.WCmd
	parked := w.sim.Parked()
	if len(parked) >= 2 {
		w.sim.Probe("concurrent.parked")
	}
	for _, op := range parked {
		out = append(out, core.WCmd{Cmd: core.Cmd{A: "rel", Op: op.ID, Out: core.OutOK}, W: 100})
		if p.FaultW > 0 {
			out = append(out, core.WCmd{Cmd: core.Cmd{A: "rel", Op: op.ID, Out: "EIO"}, W: p.FaultW})
			if op.Kind == "write" || op.Kind == "mkdir" || op.Kind == "createtemp" || op.Kind == "rename" {
				out = append(out, core.WCmd{Cmd: core.Cmd{A: "rel", Op: op.ID, Out: "ENOSPC"}, W: p.FaultW})
			}
			if op.Kind == "write" {
				out = append(out, core.WCmd{Cmd: core.Cmd{A: "rel", Op: op.ID, Out: "short"}, W: p.FaultW})
			}
		}
	}
	if w.next < len(w.ops) && w.inflight < p.MaxConc && !w.conflicts(w.ops[w.next]) {
		wt := 30
		if len(parked) == 0 {
			wt = 100
		}
		out = append(out, core.WCmd{Cmd: core.Cmd{A: "start", N: int64(w.next)}, W: wt})
	}
	return out
}

// conflicts: sunlight never uploads different bytes to one immutable key
// concurrently (tiles are a function of the tree); such a race has no defined
// winner, so the workload does not contain it.
func (w *world) conflicts(n *upl) bool {
	if n.kind != "up" {
		return false
	}
	for _, u := range w.all {
		if u.ret < 0 && u.kind == "up" && u.key == n.key && (u.imm || n.imm) && !bytes.Equal(u.data, n.data) {
			return true
		}
	}
	return false
}

func (w *world) exec(c core.Cmd) bool {
	switch c.A {
	case "rel":
		op := w.sim.ParkedOp(c.Op)
		if op == nil {
			return false
		}
		if c.Out != core.OutOK {
			w.sim.Probe("fault." + c.Out + "." + op.Kind)
			for _, u := range w.all {
				if u.id+1 == op.Inst {
					u.faulted = true
				}
			}
		}
		w.fs.Owner = op.Inst
		w.sim.Release(op, c.Out)
		return true
	case "start":
		if int(c.N) != w.next || w.next >= len(w.ops) {
			// replay after minimisation: start whatever is next
			if w.next >= len(w.ops) {
				return false
			}
		}
		u := w.ops[w.next]
		if w.conflicts(u) || w.inflight >= w.prof.MaxConc {
			return false
		}
		w.next++
		w.start(u)
		return true
	}
	return false
}

// quiesce evaluates the oracles that apply at this instant.
func (w *world) quiesce() {
	done := w.done
	w.done = nil
	sort.Slice(done, func(i, j int) bool { return done[i].id < done[j].id })
	for _, u := range done {
		w.sim.Logf("ret %s %q imm=%v len=%d err=%v", u.kind, u.key, u.imm, len(u.data), u.err)
		w.onReturn(u)
	}
	p := w.prof
	if w.fs.Ops != w.lastOps {
		w.lastOps = w.fs.Ops
		// in a replay every step is checked: the sampled subset would depend on
		// PRNG draws that a replayed (and minimised) trace does not make
		if p.Sweep || w.replaying || core.Mix(w.sim.Seed, uint64(w.sim.Step))%100 < uint64(p.CrashPct) {
			w.crashCheck(false)
		}
	}
}

func (w *world) onReturn(u *upl) {
	if u.panicked == "budget" {
		w.v("livelock", "%s of key %q (len %d, immutable=%v) did not finish within %d file-system operations", u.kind, u.key, len(u.data), u.imm, simos.Budget)
		simos.Budget = 0 // one report per run; let the rest proceed
		return
	}
	if u.panicked != "" {
		w.v("panic", "%s of key %q panicked: %s", u.kind, u.key, u.panicked)
		return
	}
	if u.bad {
		if u.err == nil {
			w.v("bad-key-accepted", "%s of key %q succeeded", u.kind, u.key)
		}
		return
	}
	switch u.kind {
	case "up":
		if !u.imm {
			return
		}
		// immutable rules against earlier acknowledged immutable uploads
		for _, a := range w.all {
			if a == u || a.kind != "up" || a.key != u.key || !a.imm || a.err != nil || a.ret < 0 || a.ret > u.invoke {
				continue
			}
			if w.discardedAfter(u.key, a.invoke) {
				continue
			}
			if bytes.Equal(a.data, u.data) {
				if u.err != nil && !u.faulted {
					w.v("immutable-reupload-refused", "re-upload of identical bytes to immutable %q failed: %v", u.key, u.err)
				}
			} else if u.err == nil {
				w.v("immutable-overwritten", "upload of different bytes to immutable %q succeeded", u.key)
			}
		}
	case "get":
		w.checkRead(u)
	}
}

func isInjected(err error) bool {
	s := err.Error()
	return strings.Contains(s, "input/output error") || strings.Contains(s, "no space left")
}

func (w *world) discardedAfter(key string, step int) bool {
	for _, d := range w.all {
		if d.kind == "del" && d.key == key && (d.ret < 0 || d.ret >= step) {
			return true
		}
	}
	return false
}

func (w *world) values(key string) [][]byte {
	var vs [][]byte
	for _, u := range w.all {
		if u.kind == "up" && u.key == key {
			vs = append(vs, u.data)
		}
	}
	return vs
}

func inSet(vs [][]byte, b []byte) bool {
	for _, v := range vs {
		if bytes.Equal(v, b) {
			return true
		}
	}
	return false
}

// checkRead: a concurrent reader sees the old or the new complete object.
func (w *world) checkRead(g *upl) {
	vs := w.values(g.key)
	if g.err == nil {
		if !inSet(vs, g.got) {
			w.v("reader-partial", "fetch of %q returned %d bytes that are no complete uploaded object", g.key, len(g.got))
		}
		return
	}
	if isInjected(g.err) {
		return
	}
	// not found: only acceptable if no upload had been acknowledged before the
	// read started (or the object was discarded)
	for _, a := range w.all {
		if a.kind == "up" && a.key == g.key && a.err == nil && a.ret >= 0 && a.ret <= g.invoke && !w.discardedAfter(g.key, a.invoke) {
			w.v("reader-missing", "fetch of %q failed (%v) although an upload had been acknowledged", g.key, g.err)
			return
		}
	}
}

// acceptable returns the contents key may have, given the acknowledged uploads;
// ok=false means there is no constraint beyond "complete or absent".
func (w *world) acceptable(key string) (vals [][]byte, must bool) {
	var A *upl
	for _, u := range w.all {
		if u.kind == "up" && u.key == key && u.err == nil && u.ret >= 0 && !u.bad {
			if A == nil || u.ret > A.ret {
				A = u
			}
		}
	}
	if A == nil || w.discardedAfter(key, A.invoke) {
		return nil, false
	}
	vals = append(vals, A.data)
	for _, u := range w.all {
		if u != A && u.kind == "up" && u.key == key && (u.ret < 0 || u.ret > A.invoke) {
			vals = append(vals, u.data)
		}
	}
	return vals, true
}

func (w *world) keys() []string {
	m := map[string]bool{}
	for _, u := range w.all {
		if u.kind == "up" && !u.bad {
			m[u.key] = true
		}
	}
	ks := make([]string, 0, len(m))
	for k := range m {
		ks = append(ks, k)
	}
	sort.Strings(ks)
	return ks
}

// liveCheck: the live view at the end.
func (w *world) liveCheck() {
	snap := w.fs.Snapshot()
	for _, k := range w.keys() {
		got, present := snap[storeDir+"/"+k]
		vals, must := w.acceptable(k)
		if present && !inSet(w.values(k), got) {
			w.v("partial-object", "%q holds %d bytes that are no complete uploaded object", k, len(got))
		}
		if must && (!present || !inSet(vals, got)) {
			w.v("acked-object-wrong", "live view: acknowledged object %q is missing or has other content", k)
		}
	}
}

// crashCheck takes power-loss images of the current state and reads every
// key back from each of them.
func (w *world) crashCheck(final bool) {
	fsys := w.fs
	pend := fsys.Pending()
	model := "strict"
	if w.prof.Ordered {
		model = "ordered"
	}
	check := func(img *simos.Image, what string) {
		w.crashImages++
		w.sim.Probe("crash.images")
		for _, k := range w.keys() {
			got, present := img.Files[storeDir+"/"+k]
			vals, must := w.acceptable(k)
			if present && !inSet(w.values(k), got) {
				w.v("crash-partial", "[%s] after power loss (%s) %q holds %d bytes that are no complete uploaded object", model, what, k, len(got))
			}
			if must && !present {
				if d := w.foreignUnsyncedAncestor(img, k); d != "" {
					w.sim.ViolateSig("C13", "crash-lost", "mkdirall-existing-dir-not-durable",
						"[%s] after power loss (%s) the acknowledged object %q is gone: its ancestor directory %s existed when the upload ran but had been created by another call and never made durable in its parent (durable.MkdirAll returns without fsync when os.Stat succeeds)", model, what, k, d)
				} else if w.foreignUnsyncedFile(img, k) {
					w.sim.ViolateSig("C13", "crash-lost", "immutable-existing-file-not-durable",
						"[%s] after power loss (%s) the acknowledged object %q is gone: the acknowledged call was a re-upload of an immutable object that found the file in the page cache, left there by an earlier Upload whose fsync/close failed, and returned nil without making it durable", model, what, k)
				} else {
					w.v("crash-lost", "[%s] after power loss (%s) the acknowledged object %q is gone", model, what, k)
				}
			} else if must && !inSet(vals, got) {
				w.v("crash-wrong", "[%s] after power loss (%s) the acknowledged object %q has other content", model, what, k)
			}
		}
	}
	// data variants for unsynced files: worst cases
	variants := []func(n *simos.Inode) []byte{
		func(n *simos.Inode) []byte { // nothing that was not fsynced
			if n.DSynced {
				return n.DData
			}
			return nil
		},
		func(n *simos.Inode) []byte { return n.Data }, // everything
		func(n *simos.Inode) []byte { // torn: size updated, first half written, rest zeros
			if !n.Unsynced() {
				return n.DData
			}
			b := make([]byte, len(n.Data))
			copy(b, n.Data[:len(n.Data)/2])
			return b
		},
	}
	if w.prof.Ordered {
		for c := fsys.CommitSeq; c <= fsys.CommitSeq+len(pendAfter(fsys)); c++ {
			for vi, dv := range variants {
				cc := c
				img := fsys.CrashImage(true, nil, func(lo, hi int) int {
					if cc > hi {
						return hi
					}
					return cc
				}, dv)
				check(img, fmt.Sprintf("journal cut %d, data variant %d", cc, vi))
			}
		}
		return
	}
	n := len(pend)
	idx := map[*simos.Change]int{}
	for i, c := range pend {
		idx[c] = i
	}
	masks := []uint64{}
	if n <= 6 {
		for m := uint64(0); m < 1<<uint(n); m++ {
			masks = append(masks, m)
		}
	} else {
		masks = append(masks, 0, 1<<uint(n)-1)
		r := core.NewRand(core.Mix(w.sim.Seed, uint64(w.sim.Step)*31+uint64(fsys.Ops)))
		for i := 0; i < 24; i++ {
			masks = append(masks, r.Uint64()&(1<<uint(n)-1))
		}
		// each single change alone missing
		for i := 0; i < n && i < 24; i++ {
			masks = append(masks, (1<<uint(n)-1)&^(1<<uint(i)))
		}
	}
	for _, m := range masks {
		for vi, dv := range variants {
			mm := m
			img := fsys.CrashImage(false, func(c *simos.Change) bool { return mm>>uint(idx[c])&1 == 1 }, nil, dv)
			check(img, fmt.Sprintf("unsynced entry subset %b of %d, data variant %d", mm, n, vi))
		}
	}
}

func pendAfter(f *simos.FS) []*simos.Change {
	var out []*simos.Change
	for _, c := range f.Log {
		if c.Seq > f.CommitSeq {
			out = append(out, c)
		}
	}
	return out
}

// foreignUnsyncedAncestor returns the ancestor directory of key that is missing
// from the image and whose creation was made by a call other than the latest
// acknowledged upload of key ("" if there is none).
func (w *world) foreignUnsyncedAncestor(img *simos.Image, key string) string {
	var A *upl
	for _, u := range w.all {
		if u.kind == "up" && u.key == key && u.err == nil && u.ret >= 0 && (A == nil || u.ret > A.ret) {
			A = u
		}
	}
	if A == nil {
		return ""
	}
	p := storeDir + "/" + key
	for {
		i := strings.LastIndexByte(p, '/')
		if i <= 0 {
			return ""
		}
		p = p[:i]
		if img.Dirs[p] {
			return ""
		}
		// p is missing from the image: who created it?
		base := p[strings.LastIndexByte(p, '/')+1:]
		self := w.fs.Lookup(p)
		for _, c := range w.fs.Log {
			if c.Child != nil && c.Child.Dir && c.Child == self && c.Name == base && !c.Durable {
				if c.Owner != A.id+1 {
					// and its own parent is present, i.e. this is the broken link
					pp := p[:strings.LastIndexByte(p, '/')]
					if pp == "" {
						pp = "/"
					}
					if img.Dirs[pp] {
						return p
					}
				}
			}
		}
	}
}

// foreignUnsyncedFile reports whether key's directory entry was made by a call
// other than the latest acknowledged (immutable) upload and is not durable,
// while its directory is present in the image.
func (w *world) foreignUnsyncedFile(img *simos.Image, key string) bool {
	var A *upl
	for _, u := range w.all {
		if u.kind == "up" && u.key == key && u.err == nil && u.ret >= 0 && (A == nil || u.ret > A.ret) {
			A = u
		}
	}
	if A == nil || !A.imm {
		return false
	}
	p := storeDir + "/" + key
	dir := p[:strings.LastIndexByte(p, '/')]
	if !img.Dirs[dir] {
		return false
	}
	base := p[strings.LastIndexByte(p, '/')+1:]
	parent := w.fs.Lookup(dir)
	var last *simos.Change
	for _, c := range w.fs.Log {
		if c.Dir == parent && c.Name == base && c.Child != nil && !c.Child.Dir {
			last = c
		}
	}
	return last != nil && !last.Durable && last.Owner != A.id+1
}

// SimTraceForFixedSequence runs the fixed call sequence over simos without a
// scheduler and returns the recorded operation kinds.
func SimTraceForFixedSequence() []string {
	fsys := simos.New()
	simos.Current = fsys
	simos.Budget = 0
	simos.Mkdir(storeDir, 0o755)
	fsys.Trace = nil
	ctx := context.Background()
	be, err := ctlog.NewLocalBackend(ctx, storeDir, slog.New(slog.NewTextHandler(io.Discard, nil)))
	if err != nil {
		panic(err)
	}
	imm := &ctlog.UploadOptions{Immutable: true}
	data := bytes.Repeat([]byte("x"), 100)
	must := func(err error) {
		if err != nil {
			panic(err)
		}
	}
	must(be.Upload(ctx, "d1/d2/x", data, imm))
	must(be.Upload(ctx, "d1/d2/x", data, imm))
	must(be.Upload(ctx, "d1/y", data, nil))
	_, err = be.Fetch(ctx, "d1/y")
	must(err)
	must(be.Discard(ctx, "d1/y"))
	return fsys.Trace
}
