package seq

import (
	"archive/tar"
	"bytes"
	"compress/gzip"
	"crypto/sha256"
	"context"
	"errors"
	"fmt"
	"io"
	"os"
	"os/exec"
	"path/filepath"
	"sort"
	"strconv"
	"strings"
	"testing/synctest"
	"time"

	"encoding/base64"

	"crawshaw.io/sqlite"
	"crawshaw.io/sqlite/sqlitex"
	"filippo.io/sunlight/internal/ctlog"
	"filippo.io/sunlight/internal/verifsim/core"
	"filippo.io/sunlight/internal/verifsim/corpus"
	"filippo.io/sunlight/internal/verifsim/ref"
)

// ---------------------------------------------------------------------------
// extra commands: retries, cache faults, tampering

func (w *World) extraEnabled() []core.WCmd {
	p := w.prof
	r := w.sim.Rng
	var out []core.WCmd
	add := func(wt int, c core.Cmd) {
		if wt > 0 {
			out = append(out, core.WCmd{Cmd: c, W: wt})
		}
	}
	// a client retries an entry whose submission failed
	if n := len(w.failedItems); n > 0 {
		for _, in := range w.insts {
			if in.log == nil || in.dead || in.state != stRunning || w.cacheParked(in) {
				continue
			}
			add(12, core.Cmd{A: "submit", I: in.idx, N: int64(w.failedItems[r.Intn(n)]), S: "retry", V: r.Intn(16)})
		}
	}
	if p.RootsW > 0 {
		for _, in := range w.insts {
			if in.log == nil || in.dead || in.state != stRunning {
				continue
			}
			wt := p.RootsW
			if len(in.rootsMem) == 0 {
				wt = 80
			}
			sets := [][]int{{1}, {1, 2}, {2}, {1}, {1, 2}}
			set := sets[r.Intn(len(sets))]
			var plan []int
			if p.OpErrW > 0 && r.Chance(1, 3) {
				plan = []int{1 + r.Intn(2)}
			}
			add(wt, core.Cmd{A: "setroots", I: in.idx, L: plan, S: fmt.Sprint(set)})
			add(p.RootsW, core.Cmd{A: "getroots", I: in.idx})
		}
	}
	if p.CacheW > 0 {
		for _, in := range w.insts {
			if in.state == stCrashed || in.state == stStopped || in.state == stRefused {
				switch r.Intn(5) {
				case 4:
					if recomputeBinary != "" && w.recomputes < 2 {
						add(p.CacheW, core.Cmd{A: "cache-recompute", I: in.idx})
					}
				case 0:
					add(p.CacheW, core.Cmd{A: "cache-delete", I: in.idx})
				case 1:
					add(p.CacheW, core.Cmd{A: "cache-rollback", I: in.idx})
				case 2:
					add(p.CacheW, core.Cmd{A: "cache-legacy", I: in.idx})
				}
			}
			if in.state == stRunning && w.instParked(in) == 0 && r.Chance(1, 3) {
				add(p.CacheW, core.Cmd{A: "cache-snapshot", I: in.idx})
			}
			if in.state == stRunning && w.instParked(in) == 0 && len(w.submitted) > 0 && !p.HTTP {
				add(p.CacheW, core.Cmd{A: "cache-readfault", I: in.idx, N: int64(w.submitted[r.Intn(len(w.submitted))])})
			}
		}
	}
	if p.TamperW > 0 && w.tamperCount < 6 {
		for _, st := range w.stores {
			keys := st.keys()
			if len(keys) == 0 {
				continue
			}
			k := keys[r.Intn(len(keys))]
			// bias towards the objects recovery reads
			if r.Chance(1, 2) {
				var edge []string
				for _, kk := range keys {
					if strings.Contains(kk, ".p/") || kk == "checkpoint" || strings.HasPrefix(kk, "staging/") {
						edge = append(edge, kk)
					}
				}
				if len(edge) > 0 {
					k = edge[r.Intn(len(edge))]
				}
			}
			if r.Chance(1, 8) {
				var iss []string
				for _, kk := range keys {
					if strings.HasPrefix(kk, "issuer/") {
						iss = append(iss, kk)
					}
				}
				if len(iss) > 0 {
					k = iss[r.Intn(len(iss))]
				}
			}
			kinds := []string{"delete", "truncate", "flip", "swap", "rollback", "append"}
			if strings.HasPrefix(k, "tile/data/") || strings.HasPrefix(k, "staging/") {
				kinds = append(kinds, "recode", "recode", "recode")
			}
			add(p.TamperW, core.Cmd{A: "tamper", I: st.idx, S: kinds[r.Intn(len(kinds))], Op: k, N: int64(r.Intn(1 << 20))})
			// the most recently written data tile (the right edge recovery
			// reads), re-encoded with one leaf changed: well-formed, wrong content
			// (by coordinate, not by write order: tiles of one round are uploaded by
			// parallel goroutines)
			var newest string
			var newestC ref.TileCoord
			for _, kk := range keys {
				if c, ok := ref.ParsePath(kk); ok && c.Level == -1 && (newest == "" || c.N > newestC.N || (c.N == newestC.N && c.W > newestC.W)) {
					newest, newestC = kk, c
				}
			}
			if newest != "" {
				add((p.TamperW+1)/2, core.Cmd{A: "tamper", I: st.idx, S: "recode", Op: newest, N: int64(r.Intn(1 << 20))})
			}
		}
	}
	return out
}

func (w *World) extraExec(c core.Cmd) bool {
	switch c.A {
	case "setroots":
		in := w.inst(c.I)
		if in == nil || in.log == nil || in.dead || in.state != stRunning {
			return false
		}
		var set []string
		if strings.Contains(c.S, "1") {
			set = append(set, "root1")
		}
		if strings.Contains(c.S, "2") {
			set = append(set, "root2")
		}
		w.setRoots(in, set, c.L)
		return true
	case "getroots":
		in := w.inst(c.I)
		if in == nil || in.log == nil || in.dead || in.handler == nil || in.state != stRunning {
			return false
		}
		w.checkGetRoots(in)
		return true
	case "cache-delete":
		in := w.inst(c.I)
		if in == nil || in.state == stRunning || in.state == stLoading {
			return false
		}
		removeCache(in.cache)
		in.cacheEpoch++
		w.sim.Probe("fault.cache.delete")
		return true
	case "cache-recompute":
		in := w.inst(c.I)
		if in == nil || in.state == stRunning || in.state == stLoading || recomputeBinary == "" {
			return false
		}
		in.cacheEpoch++ // the old cache is gone in any case
		in.recomputed = nil
		if err := w.recomputeCache(in); err != nil {
			w.sim.Logf("recompute-cache failed: %v", err)
			w.sim.Probe("cache.recompute.failed")
			return true
		}
		w.recomputes++
		w.sim.Probe("fault.cache.recompute")
		// what the rebuilt cache must know: an occurrence of every entry in
		// the tiles the tool reads (all full tiles; the partial one only when the
		// tree has no full tile)
		if pub := w.orc.lastPublished(in.store); pub != nil && pub.STH != nil && !w.orc.tampered {
			cover := pub.STH.Size
			if cover >= ref.TileWidth {
				cover = cover / ref.TileWidth * ref.TileWidth
			}
			g := w.orc.truth(in.store)
			if int64(len(g.entries)) < cover {
				w.sim.Probe("recompute.truth-short")
			}
			if int64(len(g.entries)) >= cover {
				w.sim.Probe("recompute.model")
				in.recomputed = map[[32]byte][][2]int64{}
				in.recomputedEpoch = in.cacheEpoch
				for i := int64(0); i < cover; i++ {
					e := g.entries[i]
					k := independentCacheKey(&ctlog.PendingLogEntry{Certificate: e.Cert, IsPrecert: e.IsPrecert, IssuerKeyHash: e.IssuerKeyHash})
					in.recomputed[k] = append(in.recomputed[k], [2]int64{i, e.Timestamp})
				}
			}
		}
		return true
	case "cache-readfault":
		// the cache cannot be read for a moment (the table is renamed away from
		// another connection and back): a submission in that window fails; it is
		// never treated as "not in the cache"
		in := w.inst(c.I)
		if in == nil || in.state != stRunning || in.log == nil || w.instParked(in) != 0 || int(c.N) >= len(w.items) || c.N < 0 {
			return false
		}
		conn, err := sqlite.OpenConn(in.cache, 0)
		if err != nil {
			return false
		}
		defer conn.Close()
		if err := sqlitex.ExecTransient(conn, "ALTER TABLE cache256 RENAME TO cache256_away", nil); err != nil {
			return false
		}
		s := w.doSubmit(in, w.items[c.N], false, core.Cmd{})
		for i := 0; i < 8 && !s.Done; i++ {
			for _, op := range w.sim.Parked() {
				if op.Inst == in.idx && op.Inc == in.inc && op.Kind == "cache" {
					w.sim.Release(op, core.OutOK)
				}
			}
			synctest.Wait()
		}
		if err := sqlitex.ExecTransient(conn, "ALTER TABLE cache256_away RENAME TO cache256", nil); err != nil {
			panic("cache-readfault: cannot restore the table: " + err.Error())
		}
		w.sim.Probe("fault.cache.readfault")
		if s.Done && s.Err != nil {
			w.sim.Probe("cache.readfault.refused")
		}
		return true
	case "cache-snapshot":
		in := w.inst(c.I)
		if in == nil {
			return false
		}
		b, err := os.ReadFile(in.cache)
		if err != nil {
			return false
		}
		in.cacheSnap = b
		return true
	case "cache-rollback":
		in := w.inst(c.I)
		if in == nil || in.state == stRunning || in.state == stLoading || in.cacheSnap == nil {
			return false
		}
		removeCache(in.cache)
		os.WriteFile(in.cache, in.cacheSnap, 0o644)
		in.cacheEpoch++
		w.sim.Probe("fault.cache.rollback")
		return true
	case "cache-legacy":
		in := w.inst(c.I)
		if in == nil || in.state == stRunning || in.state == stLoading {
			return false
		}
		if err := legacyCache(in.cache); err != nil {
			return false
		}
		in.cacheEpoch++
		w.sim.Probe("fault.cache.legacy")
		return true
	case "tamper":
		if c.I < 0 || c.I >= len(w.stores) {
			return false
		}
		return w.tamper(w.stores[c.I], c)
	}
	return false
}

// legacyCache moves every cache256 row into a pre-v0.8.1 128-bit "cache" table.
func legacyCache(path string) error {
	conn, err := sqlite.OpenConn(path, 0)
	if err != nil {
		return err
	}
	defer conn.Close()
	return sqlitex.ExecScript(conn, `
		CREATE TABLE IF NOT EXISTS cache (key BLOB PRIMARY KEY, timestamp INTEGER, leaf_index INTEGER) WITHOUT ROWID;
		INSERT OR IGNORE INTO cache SELECT substr(key, 1, 16), timestamp, leaf_index FROM cache256;
		DELETE FROM cache256;`)
}

// ---------------------------------------------------------------------------
// tampering (C08)

func (w *World) tamper(st *Store, c core.Cmd) bool {
	o, ok := st.objs[c.Op]
	if !ok {
		return false
	}
	if !w.orc.tampered {
		w.orc.snapshotPreTamper()
		w.orc.tampered = true
		w.orc.firstTamperStep = w.sim.Step
	}
	w.tamperCount++
	data := bytes.Clone(o.Data)
	if c.Op == "checkpoint" && (c.S == "truncate" || c.S == "flip" || c.S == "append") {
		// checkpoint bytes are randomised (grease, line order, hedged ML-DSA): damage
		// is placed relative to the parsed structure so that a run stays a function
		// of its seed
		st.tamperPut(c.Op, tamperCheckpoint(data, w.insts[0].name, c.S, int(c.N)), o)
		w.sim.Probe("fault.tamper." + c.S)
		return true
	}
	switch c.S {
	case "delete":
		delete(st.objs, c.Op)
		st.ver++
	case "truncate":
		if len(data) == 0 {
			return false
		}
		st.tamperPut(c.Op, data[:int(c.N)%len(data)], o)
	case "flip":
		if len(data) == 0 {
			return false
		}
		data[int(c.N)%len(data)] ^= 1 << (uint(c.N>>8) % 8)
		st.tamperPut(c.Op, data, o)
	case "append":
		st.tamperPut(c.Op, append(data, byte(c.N), 0, 0, 1), o)
	case "recode":
		nd, ok := recodeObject(c.Op, data, c.N)
		if !ok {
			return false
		}
		st.tamperPut(c.Op, nd, o)
	case "swap":
		keys := st.keys()
		other := keys[int(c.N)%len(keys)]
		if other == c.Op {
			return false
		}
		o2 := st.objs[other]
		d2 := bytes.Clone(o2.Data)
		st.tamperPut(c.Op, d2, o)
		st.tamperPut(other, data, o2)
	case "rollback":
		// replace by an older version of a related object: an older checkpoint,
		// or a smaller partial of the same tile
		if c.Op == "checkpoint" {
			if len(st.pubHist) < 2 {
				return false
			}
			old := st.pubHist[int(c.N)%(len(st.pubHist)-1)]
			st.tamperPut(c.Op, old.Bytes, o)
		} else if i := strings.Index(c.Op, ".p/"); i >= 0 {
			var cands []string
			for _, k := range st.keys() {
				if strings.HasPrefix(k, c.Op[:i+3]) && k != c.Op {
					cands = append(cands, k)
				}
			}
			if len(cands) == 0 {
				return false
			}
			st.tamperPut(c.Op, st.objs[cands[int(c.N)%len(cands)]].Data, o)
		} else {
			return false
		}
	default:
		return false
	}
	st.tamperedAt[c.Op] = w.sim.Step
	if c.S == "swap" {
		keys := st.keys()
		st.tamperedAt[keys[int(c.N)%len(keys)]] = w.sim.Step
	}
	w.sim.Probe("fault.tamper." + c.S)
	return true
}

// checkIssuersAtAck: an incarnation that started after an issuer object was
// altered compares the object before it trusts it, so it cannot acknowledge an
// entry of that issuer while the altered object is still there (C08).
func (o *oracle) checkIssuersAtAck(in *Instance, s *Submission) {
	if !o.tampered {
		return
	}
	for _, iss := range s.Item.Entry.Issuers {
		fp := sha256.Sum256(iss)
		key := fmt.Sprintf("issuer/%x", fp)
		obj, ok := in.store.objs[key]
		if !ok || sha256.Sum256(obj.Data) == fp {
			continue
		}
		if at, ok := in.store.tamperedAt[key]; ok && at < in.loadStep {
			o.v("C08", "ack-with-altered-issuer", "sub %d acknowledged by i%d.%d (started at step %d) although %s was altered at step %d and still holds other bytes", s.ID, in.idx, in.inc, in.loadStep, key, at)
		} else {
			o.w.sim.Probe("tamper.issuer.after-start")
		}
	}
}

func (s *Store) tamperPut(key string, data []byte, like *Obj) {
	s.ver++
	s.objs[key] = &Obj{Data: bytes.Clone(data), Opts: like.Opts, Ver: s.ver}
}

// snapshotPreTamper freezes the ground truth known before the first tamper.
func (o *oracle) snapshotPreTamper() {
	w := o.w
	st := w.stores[0]
	// bring the ground truth up to the last published checkpoint
	if pub := o.lastPublished(st); pub != nil && pub.STH != nil {
		o.audit(st, pub.STH, "pre-tamper")
	}
	g := o.truth(st)
	o.preTamper = append([]*ref.Entry(nil), g.entries...)
	id, _ := ctlog.VerifLogID(w.insts[0].key)
	o.preTamperLock = len(w.lock.hist[id])
}

// recordIntended remembers the leaves sunlight itself put into a staging bundle
// or data tile, independently of what storage holds later.
func (o *oracle) recordIntended(key string, data []byte) {
	o.recordIntendedFrom(key, data, -1)
}

// stagedBad is a leaf below the pre-tamper size that sunlight itself put into
// the staging bundle of tree size Size with other bytes than the committed ones.
type stagedBad struct {
	Size, Index int64
	Step        int
}

func (o *oracle) recordIntendedFrom(key string, data []byte, stagedSize int64) {
	if strings.HasPrefix(key, "staging/") {
		var n int64 = -1
		if i := strings.IndexByte(key[len("staging/"):], '-'); i > 0 {
			if v, err := strconv.ParseInt(key[len("staging/"):len("staging/")+i], 10, 64); err == nil {
				n = v
			}
		}
		raw, err := gunzip(data)
		if err != nil {
			return
		}
		tr := tar.NewReader(bytes.NewReader(raw))
		for {
			h, err := tr.Next()
			if err != nil {
				return
			}
			b, err := io.ReadAll(tr)
			if err != nil {
				return
			}
			if strings.HasPrefix(h.Name, "tile/data/") {
				o.recordIntendedFrom(h.Name, b, n)
			}
		}
	}
	c, ok := ref.ParsePath(key)
	if !ok || c.Level != -1 {
		return
	}
	raw, err := gunzip(data)
	if err != nil {
		return
	}
	es, err := ref.DecodeDataTile(raw, c.W)
	if err != nil {
		return
	}
	for i, e := range es {
		idx := c.N*ref.TileWidth + int64(i)
		dup := false
		for _, x := range o.intended[idx] {
			dup = dup || x.LeafHash() == e.LeafHash()
		}
		if !dup {
			o.intended[idx] = append(o.intended[idx], e)
		}
		if o.tampered && stagedSize >= 0 && idx < int64(len(o.preTamper)) && e.LeafHash() != o.preTamper[idx].LeafHash() {
			o.stagedBad = append(o.stagedBad, stagedBad{stagedSize, idx, o.w.sim.Step})
		}
	}
}

// checkTamperHistory is the C08 oracle: every checkpoint committed after the
// first tamper extends the pre-tamper tree by entries submitted afterwards.
func (o *oracle) checkTamperHistory() {
	if !o.tampered {
		return
	}
	w := o.w
	id, _ := ctlog.VerifLogID(w.insts[0].key)
	hist := w.lock.hist[id]
	pre := o.preTamper
	var preLockSize int64
	if o.preTamperLock > 0 && hist[o.preTamperLock-1].STH != nil {
		preLockSize = hist[o.preTamperLock-1].STH.Size
	}
	for _, ev := range hist[o.preTamperLock:] {
		if ev.STH == nil {
			continue
		}
		n := ev.STH.Size
		if n < preLockSize {
			o.v("C08", "shrinks-after-tamper", "checkpoint of size %d committed after tampering, lock store had %d", n, preLockSize)
			continue
		}
		// assemble leaves [0,n): pre-tamper ground truth, then what sunlight
		// itself staged for the remaining indexes (search over candidates)
		t := &ref.Tree{}
		okAll := true
		var chosen []*ref.Entry
		for i := int64(0); i < n; i++ {
			var cands []*ref.Entry
			if i < int64(len(pre)) {
				cands = []*ref.Entry{pre[i]}
			} else {
				cands = o.intended[i]
			}
			if len(cands) == 0 {
				okAll = false
				break
			}
			chosen = append(chosen, cands[len(cands)-1])
		}
		if !okAll {
			w.sim.Probe("tamper.commit.unchecked")
			continue
		}
		// try the most recent candidate per index first, then fall back to a
		// search over the (few) indexes with several candidates
		match := false
		var alts []int64
		for i := int64(len(pre)); i < n; i++ {
			if len(o.intended[i]) > 1 {
				alts = append(alts, i)
			}
		}
		combos := 1
		for range alts {
			combos *= 2
			if combos > 64 {
				break
			}
		}
		for c := 0; c < combos && !match; c++ {
			cur := append([]*ref.Entry(nil), chosen...)
			for bi, idx := range alts {
				if bi >= 6 {
					break
				}
				cs := o.intended[idx]
				pick := len(cs) - 1
				if c>>uint(bi)&1 == 1 {
					pick = len(cs) - 2
				}
				cur[idx] = cs[pick]
			}
			t = &ref.Tree{}
			for _, e := range cur {
				t.Append(e.LeafHash())
			}
			if t.Root(n) == ev.STH.Root {
				match = true
				chosen = cur
			}
		}
		for _, b := range o.stagedBad {
			if b.Size == n && b.Step < ev.Step {
				o.v("C08", "rewrote-tampered-leaf", "checkpoint size=%d committed at step %d from a staging bundle in which sunlight itself wrote leaf %d with other bytes than the committed tree holds (tampered right-edge data tile carried forward)", n, ev.Step, b.Index)
				break
			}
		}
		if !match {
			o.v("C08", "fork-after-tamper", "checkpoint size=%d root=%s committed at step %d is not MTH(pre-tamper leaves ++ newly staged entries)", n, ev.STH.Root, ev.Step)
			continue
		}
		w.sim.Probe("tamper.commit.checked")
		for i := int64(len(pre)); i < n; i++ {
			e := chosen[i]
			if e.Index != i {
				o.v("C08", "post-tamper-leaf", "leaf %d carries index %d", i, e.Index)
			}
			pe := &ctlog.PendingLogEntry{Certificate: e.Cert, IsPrecert: e.IsPrecert, IssuerKeyHash: e.IssuerKeyHash}
			if o.itemsByKey[independentCacheKey(pe)] == nil {
				o.v("C08", "post-tamper-leaf", "leaf %d is not a submitted entry", i)
			}
		}
	}
	// acknowledgements after the tamper name an index that holds that entry in
	// what sunlight itself staged
	for _, s := range o.okAcks {
		if s.prefill || s.DoneStep < o.tamperStep() {
			continue
		}
		var found bool
		cands := o.intended[s.Index]
		if s.Index < int64(len(pre)) {
			cands = append([]*ref.Entry{pre[s.Index]}, cands...)
		}
		for _, e := range cands {
			if e.Timestamp == s.Time && bytes.Equal(e.Cert, s.Item.Entry.Certificate) && e.IsPrecert == s.Item.Entry.IsPrecert {
				found = true
			}
		}
		if !found {
			o.v("C08", "ack-after-tamper", "sub %d acknowledged idx=%d ts=%d which is not that entry in the committed tree", s.ID, s.Index, s.Time)
		}
	}
}

func (o *oracle) tamperStep() int { return o.firstTamperStep }

// ---------------------------------------------------------------------------
// sunset (C17)

func (w *World) pastSunset() bool {
	p := w.prof
	return p.SunsetMs > 0 && time.Since(corpus.Epoch) >= time.Duration(p.SunsetMs)*time.Millisecond
}

// epilogueSunset: past the read-only date the log must stop with the sunset
// error at its next tick, fail everything pending and never sign again.
func (w *World) epilogueSunset(primary *Instance) {
	sim := w.sim
	id, _ := ctlog.VerifLogID(primary.key)
	restarts := 0
	ticks := 0
	for iter := 0; iter < 200; iter++ {
		synctest.Wait()
		w.quiesce()
		if ops := w.liveParked(); len(ops) > 0 {
			op := ops[0]
			pp := op.Payload.(*pendingOp)
			if op.Kind != "cache" {
				w.apply(w.insts[op.Inst], op.Inc, op.Kind, op.Key, pp, true)
			}
			sim.Release(op, core.OutOK)
			continue
		}
		switch primary.state {
		case stCrashed, stDown, stRefused:
			if restarts >= 2 {
				if primary.state == stRefused {
					w.orc.v("C03", "reload-failed", "restart failed after faults stopped: %v", primary.loadErr)
				}
				return
			}
			restarts++
			primary.dead = true
			w.startLoad(primary)
			continue
		case stRunning:
			if ticks == 0 {
				// one more submission, then the tick that must stop the log
				w.doSubmit(primary, w.freshItem(), false, core.Cmd{})
			}
			if ticks > 3 {
				w.orc.v("C17", "no-sunset", "log still sequencing %d ticks past its read-only date", ticks)
				return
			}
			ticks++
			before := len(w.lock.hist[id])
			time.Sleep(primary.untilNextTick())
			synctest.Wait()
			w.quiesce()
			if primary.state == stRunning && len(w.lock.hist[id]) > before {
				w.orc.v("C17", "signed-after-sunset", "a checkpoint was committed past the read-only date")
			}
			continue
		case stStopped:
			var se ctlog.SunsetLogError
			if !errors.As(primary.seqErr, &se) {
				// it may have stopped for another reason before; restart once
				if restarts < 2 {
					restarts++
					primary.dead = true
					w.startLoad(primary)
					continue
				}
				w.orc.v("C17", "sunset-error", "sequencer stopped with %v instead of the read-only error", primary.seqErr)
			} else {
				sim.Probe("sunset.stopped")
			}
			if n := w.unfinished(primary); n > 0 {
				w.orc.v("C17", "stranded-after-stop", "%d submissions still waiting after the log became read-only", n)
			}
			w.orc.finalChecks()
			return
		}
	}
}

var _ = sort.Ints
var _ = context.Background
var _ = fmt.Sprintf

var recomputeBinary = os.Getenv("VERIF_RECOMPUTE_BINARY")

// recomputeCache deletes the instance's cache and rebuilds it with the built
// cmd/recompute-cache binary from a materialised copy of the durable storage.
func (w *World) recomputeCache(in *Instance) error {
	dir := filepath.Join(w.tmp, fmt.Sprintf("materialised-%d", w.recomputes))
	for k, o := range in.store.objs {
		p := filepath.Join(dir, filepath.FromSlash(k))
		if err := os.MkdirAll(filepath.Dir(p), 0o755); err != nil {
			return err
		}
		if err := os.WriteFile(p, o.data(), 0o644); err != nil {
			return err
		}
	}
	seedPath := filepath.Join(w.tmp, "seed.bin")
	os.WriteFile(seedPath, logSeed, 0o600)
	removeCache(in.cache)
	cfg := filepath.Join(w.tmp, "recompute.yaml")
	y := fmt.Sprintf("logs:\n  - shortname: simlog\n    secret: %s\n    cache: %s\n    localdirectory: %s\n", seedPath, in.cache, dir)
	os.WriteFile(cfg, []byte(y), 0o644)
	out, err := exec.Command(recomputeBinary, "-c", cfg, "-log", "simlog").CombinedOutput()
	if err != nil {
		msg := string(out)
		if i := strings.Index(msg, `"msg"`); i >= 0 {
			msg = msg[i:]
		}
		return fmt.Errorf("%v: %s", err, clip(msg))
	}
	return nil
}

func (o *Obj) data() []byte { return o.Data }

// removeCache deletes a SQLite database with its journal / WAL side files (the
// cache runs in WAL mode: a stale -wal next to a new database corrupts it).
func removeCache(path string) {
	for _, suf := range []string{"", "-journal", "-wal", "-shm"} {
		os.Remove(path + suf)
	}
}

// tamperCheckpoint damages a signed checkpoint at a position defined by its
// structure: the note text, or the log's own (deterministic) signature line.
func tamperCheckpoint(data []byte, name, kind string, n int) []byte {
	i := bytes.LastIndex(data, []byte("\n\n"))
	if i < 0 {
		return append(data, 'x')
	}
	text := data[:i+1]
	var logSig []byte
	var others [][]byte
	for _, l := range bytes.SplitAfter(data[i+2:], []byte("\n")) {
		if len(l) == 0 {
			continue
		}
		// the RFC 6962 signature is the line by the log's name whose blob has the fixed prefix of an ECDSA TreeHeadSignature
		if bytes.HasPrefix(l, []byte("— "+name+" ")) && len(l) < 200 && logSig == nil && !bytes.Contains(l[:min(len(l), 40)], []byte("grease")) {
			if raw, err := base64.StdEncoding.DecodeString(strings.TrimSpace(string(l[len("— "+name+" "):]))); err == nil && len(raw) > 16 && raw[12] == 4 && raw[13] == 3 {
				logSig = l
				continue
			}
		}
		others = append(others, l)
	}
	join := func(t, sig []byte, keepOthers bool) []byte {
		out := append(bytes.Clone(t), '\n')
		out = append(out, sig...)
		if keepOthers {
			for _, o := range others {
				out = append(out, o...)
			}
		}
		return out
	}
	switch kind {
	case "truncate":
		return bytes.Clone(text[:n%len(text)])
	case "append":
		return append(bytes.Clone(data), []byte("— junk.example AAAAAAAAAAAA\n")...)
	default: // flip
		if n%2 == 0 || logSig == nil {
			t := bytes.Clone(text)
			t[(n/2)%len(t)] ^= 1 << uint(n/7%8)
			return join(t, logSig, true)
		}
		sg := bytes.Clone(logSig)
		// inside the base64 blob
		off := len("— "+name+" ") + (n/2)%(len(sg)-len("— "+name+" ")-1)
		if sg[off] == 'A' {
			sg[off] = 'B'
		} else {
			sg[off] = 'A'
		}
		return join(text, sg, true)
	}
}

// recodeObject returns a well-formed variant of a data tile (or of the data
// tiles inside a staging bundle) in which one leaf was changed: a bit of the
// certificate, the timestamp, or two neighbouring leaves exchanged.
func recodeObject(key string, data []byte, n int64) ([]byte, bool) {
	if strings.HasPrefix(key, "staging/") {
		raw, err := gunzip(data)
		if err != nil {
			return nil, false
		}
		tr := tar.NewReader(bytes.NewReader(raw))
		var out bytes.Buffer
		tw := tar.NewWriter(&out)
		changed := false
		for {
			h, err := tr.Next()
			if err != nil {
				break
			}
			b, err := io.ReadAll(tr)
			if err != nil {
				return nil, false
			}
			if strings.HasPrefix(h.Name, "tile/data/") {
				if nb, ok := recodeObject(h.Name, b, n); ok {
					b, changed = nb, true
				}
			}
			hh := *h
			hh.Size = int64(len(b))
			if tw.WriteHeader(&hh) != nil {
				return nil, false
			}
			tw.Write(b)
		}
		tw.Close()
		if !changed {
			return nil, false
		}
		return gzipBytes(out.Bytes()), true
	}
	c, ok := ref.ParsePath(key)
	if !ok || c.Level != -1 {
		return nil, false
	}
	raw, err := gunzip(data)
	if err != nil {
		return nil, false
	}
	es, err := ref.DecodeDataTile(raw, c.W)
	if err != nil || len(es) == 0 {
		return nil, false
	}
	j := int(n % int64(len(es)))
	e := *es[j]
	switch (n >> 10) % 3 {
	case 0:
		if len(e.Cert) == 0 {
			return nil, false
		}
		e.Cert = bytes.Clone(e.Cert)
		e.Cert[int(n>>4)%len(e.Cert)] ^= 1 << uint(n%8)
		es[j] = &e
	case 1:
		e.Timestamp++
		es[j] = &e
	default:
		if len(es) < 2 {
			return nil, false
		}
		k := (j + 1) % len(es)
		es[j], es[k] = es[k], es[j]
	}
	var b []byte
	for _, x := range es {
		b = x.AppendTileLeaf(b)
	}
	return gzipBytes(b), true
}

func gzipBytes(b []byte) []byte {
	var out bytes.Buffer
	zw := gzip.NewWriter(&out)
	zw.Write(b)
	zw.Close()
	return out.Bytes()
}

// stagedMembers lists the objects inside a staging bundle.
func stagedMembers(bundle []byte) map[string][]byte {
	raw, err := gunzip(bundle)
	if err != nil {
		return nil
	}
	out := map[string][]byte{}
	tr := tar.NewReader(bytes.NewReader(raw))
	for {
		h, err := tr.Next()
		if err != nil {
			return out
		}
		b, err := io.ReadAll(tr)
		if err != nil {
			return out
		}
		out[h.Name] = b
	}
}
