package seq

import (
	"bytes"
	"encoding/base64"
	"encoding/binary"
	"fmt"
	"strings"

	"filippo.io/sunlight"
	"filippo.io/sunlight/internal/verifsim/core"
	"filippo.io/sunlight/internal/verifsim/ref"
	"golang.org/x/mod/sumdb/note"
)

// strictness half of C11: structure-aware corruption of checkpoints that the
// log really signed; whenever sunlight's note verifier accepts a mutated
// checkpoint, the independent verifier must accept the same
// (origin, size, root, timestamp).
func (o *oracle) checkVerifierStrict(inst *Instance, ev *CkptEvent) {
	w := o.w
	if w.prof.Prop != "C11" || ev.STH == nil {
		return
	}
	r := core.NewRand(core.Mix(w.sim.Seed, uint64(len(o.sigSeen))*7919+uint64(ev.STH.Size)))
	v1, err := sunlight.NewRFC6962Verifier(inst.name, inst.key.Public())
	if err != nil {
		return
	}
	orig := ev.Bytes
	n, err := ref.ParseNote(orig)
	if err != nil {
		return
	}
	// locate the log's signature line
	lines := strings.SplitAfter(string(orig), "\n")
	sigIdx := -1
	for i, l := range lines {
		if strings.HasPrefix(l, "— "+inst.name+" ") {
			raw, err := base64.StdEncoding.DecodeString(strings.TrimSuffix(strings.SplitN(l, " ", 3)[2], "\n"))
			if err == nil && len(raw) > 4 && binary.BigEndian.Uint32(raw) == v1.KeyHash() {
				sigIdx = i
			}
		}
	}
	if sigIdx < 0 {
		return
	}
	sigLine := lines[sigIdx]
	sigRaw, _ := base64.StdEncoding.DecodeString(strings.TrimSuffix(strings.SplitN(sigLine, " ", 3)[2], "\n"))
	reSig := func(raw []byte) string {
		return "— " + inst.name + " " + base64.StdEncoding.EncodeToString(raw) + "\n"
	}
	withSig := func(text string, sig string) []byte {
		return []byte(text + "\n" + sig)
	}
	var prevOther []byte
	if len(o.otherCkpts) > 0 {
		prevOther = o.otherCkpts[r.Intn(len(o.otherCkpts))]
	}
	for k := 0; k < 15; k++ {
		var mut []byte
		name := ""
		switch k {
		case 0:
			name = "flip-byte"
			mut = bytes.Clone(orig)
			mut[r.Intn(len(mut))] ^= 1 << uint(r.Intn(8))
		case 1:
			name = "truncate"
			mut = bytes.Clone(orig[:r.Intn(len(orig))])
		case 2:
			name = "trailing-bytes"
			mut = append(bytes.Clone(orig), []byte("x\n")...)
		case 3:
			name = "extension-line"
			mut = withSig(n.Text+"extra line\n", sigLine)
		case 4:
			name = "origin"
			mut = withSig(strings.Replace(n.Text, inst.name, inst.name+"x", 1), sigLine)
		case 5:
			name = "size"
			mut = withSig(fmt.Sprintf("%s\n%d\n%s\n", inst.name, ev.STH.Size+1, base64.StdEncoding.EncodeToString(ev.STH.Root[:])), sigLine)
		case 6:
			name = "root"
			h := ev.STH.Root
			h[r.Intn(32)] ^= 0x40
			mut = withSig(fmt.Sprintf("%s\n%d\n%s\n", inst.name, ev.STH.Size, base64.StdEncoding.EncodeToString(h[:])), sigLine)
		case 7:
			name = "timestamp"
			raw := bytes.Clone(sigRaw)
			raw[4+r.Intn(8)] ^= 1 << uint(r.Intn(8))
			mut = withSig(n.Text, reSig(raw))
		case 8:
			name = "blob-trailing-byte"
			mut = withSig(n.Text, reSig(append(bytes.Clone(sigRaw), 0)))
		case 9:
			name = "blob-length-field"
			raw := append(bytes.Clone(sigRaw), 0)
			// bump the inner opaque length to swallow the extra byte
			l := int(raw[14])<<8 | int(raw[15])
			l++
			raw[14], raw[15] = byte(l>>8), byte(l)
			mut = withSig(n.Text, reSig(raw))
		case 10:
			name = "sig-from-other-checkpoint"
			if prevOther == nil {
				continue
			}
			for _, l := range strings.SplitAfter(string(prevOther), "\n") {
				if !strings.HasPrefix(l, "— "+inst.name+" ") {
					continue
				}
				raw, err := base64.StdEncoding.DecodeString(strings.TrimSuffix(strings.SplitN(l, " ", 3)[2], "\n"))
				if err == nil && len(raw) > 4 && binary.BigEndian.Uint32(raw) == v1.KeyHash() {
					mut = withSig(n.Text, l)
				}
			}
			if mut == nil {
				continue
			}
		case 11:
			name = "hash-alg"
			raw := bytes.Clone(sigRaw)
			raw[12] ^= byte(1 + r.Intn(7))
			mut = withSig(n.Text, reSig(raw))
		case 12:
			name = "size-leading-zero"
			mut = withSig(fmt.Sprintf("%s\n0%d\n%s\n", inst.name, ev.STH.Size, base64.StdEncoding.EncodeToString(ev.STH.Root[:])), sigLine)
		case 14:
			// the origin in another letter case (the RFC 6962 signature does not
			// cover the origin line)
			name = "origin-case"
			alt := strings.ToUpper(inst.name)
			if alt == inst.name {
				alt = strings.ToLower(inst.name)
			}
			if alt == inst.name {
				continue
			}
			mut = withSig(strings.Replace(n.Text, inst.name, alt, 1), sigLine)
		case 13:
			name = "sig-alg"
			raw := bytes.Clone(sigRaw)
			raw[13] ^= byte(1 + r.Intn(3))
			mut = withSig(n.Text, reSig(raw))
		}
		if bytes.Equal(mut, orig) {
			continue
		}
		w.sim.Probe("c11.mutation." + name)
		on, err := note.Open(mut, note.VerifierList(v1))
		if err != nil || len(on.Sigs) == 0 {
			continue // rejected: fine
		}
		// sunlight accepted: the independent verifier must accept the same tuple
		c, perr := sunlight.ParseCheckpoint(on.Text)
		ts, terr := sunlight.RFC6962SignatureTimestamp(on.Sigs[0])
		got, rerr := ref.VerifyLogCheckpoint(mut, inst.name, &inst.key.PublicKey)
		w.sim.Probe("c11.mutation.accepted")
		if rerr != nil || perr != nil || terr != nil {
			o.v("C11", "verifier-lax", "mutation %s accepted by sunlight's verifier but not independently: %v %v %v", name, rerr, perr, terr)
			continue
		}
		if got.Origin != c.Origin || got.Size != c.N || got.Root != ref.Hash(c.Hash) || got.Timestamp != ts {
			o.v("C11", "verifier-tuple", "mutation %s: sunlight reports (%s,%d,%x,%d), independent verifier (%s,%d,%s,%d)", name,
				c.Origin, c.N, c.Hash[:4], ts, got.Origin, got.Size, got.Root, got.Timestamp)
		}
	}
	// the injected signer (how the log attaches its RFC 6962 signature): one
	// signer object, the genuine text first, then texts it must refuse. Whatever
	// it signs has to open with the public verifier.
	if len(sigRaw) > 12 {
		ts, _ := sunlight.RFC6962SignatureTimestamp(note.Signature{Name: inst.name, Hash: v1.KeyHash(), Base64: base64.StdEncoding.EncodeToString(sigRaw)})
		if signer, err := sunlight.NewRFC6962InjectedSigner(inst.name, inst.key.Public(), sigRaw[12:], ts); err == nil {
			texts := []string{n.Text,
				fmt.Sprintf("%s\n%d\n%s\n", inst.name, ev.STH.Size+1, base64.StdEncoding.EncodeToString(ev.STH.Root[:])),
				n.Text + "extension line\n", n.Text}
			if prevOther != nil {
				if pn, err := ref.ParseNote(prevOther); err == nil {
					texts = append(texts, pn.Text)
				}
			}
			for i, text := range texts {
				signed, err := note.Sign(&note.Note{Text: text}, signer)
				w.sim.Probe("c11.injected.sign")
				if err != nil {
					if text == n.Text {
						o.v("C11", "injected-signer", "the injected signer refuses the text its signature was made for: %v", err)
					}
					continue
				}
				if _, err := note.Open(signed, note.VerifierList(v1)); err != nil {
					o.v("C11", "injected-signer", "the injected signer signed text %d (a text its signature does not cover); the result does not open with the public verifier: %v", i, err)
				}
			}
		}
	}
	o.otherCkpts = append(o.otherCkpts, orig)
	if len(o.otherCkpts) > 8 {
		o.otherCkpts = o.otherCkpts[1:]
	}
}
