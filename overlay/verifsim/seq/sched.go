package seq

import (
	"context"
	"encoding/binary"
	"crypto/ecdsa"
	"crypto/elliptic"
	"crypto/sha256"
	"io"

	"filippo.io/keygen"
	"golang.org/x/crypto/hkdf"
	"encoding/json"
	"errors"
	"fmt"
	"os"
	"runtime/debug"
	"sort"
	"strings"
	"testing"
	"testing/synctest"
	"time"

	"filippo.io/mldsa"
	"filippo.io/sunlight/internal/ctlog"
	"filippo.io/sunlight/internal/verifsim/core"
	"filippo.io/sunlight/internal/verifsim/corpus"
	"filippo.io/sunlight/internal/verifsim/ref"
)

// lastTrace is the command list of the most recent run.
var lastTrace []core.Cmd

// cur is the world of the run in progress; the clock hook reads it. One run at
// a time per process.
var cur *World

func init() {
	ctlog.VerifSetClock(func() int64 {
		w := cur
		if w == nil {
			return time.Now().UnixMilli()
		}
		v := w.nowMilli()
		w.notesMu.Lock()
		w.orc.clockReadings[v] = true
		w.notesMu.Unlock()
		return v
	})
}

// Run executes one simulated history. If replay is non-nil its commands are
// executed instead of drawing from the PRNG.
func Run(t *testing.T, seed uint64, prof *Profile, replay []core.Cmd, keepLog bool) (res *core.RunResult) {
	start := time.Now()
	sim := core.NewSim(seed)
	sim.KeepLog(keepLog)
	tmp, err := os.MkdirTemp(tmpRoot(), "seqsim-")
	if err != nil {
		return &core.RunResult{Seed: seed, Infra: "mkdtemp: " + err.Error()}
	}
	w := &World{sim: sim, prof: prof, tmp: tmp, lock: newLockStore()}
	w.orc = newOracle(w)
	cur = w
	ctlog.VerifYield = w.yield
	ctlog.VerifYieldPoint = w.yieldPoint
	defer func() {
		cur = nil
		ctlog.VerifYield = nil
		ctlog.VerifYieldPoint = nil
		for _, in := range w.insts {
			for _, l := range in.logs {
				func() {
					defer func() { recover() }()
					l.CloseCache()
				}()
			}
		}
		os.RemoveAll(tmp)
	}()
	corpus.Get() // build before entering the bubble
	var infra string
	func() {
		defer func() {
			if r := recover(); r != nil {
				s := fmt.Sprint(r)
				if strings.Contains(s, "deadlock: main bubble goroutine has exited") {
					return // frozen incarnations: expected
				}
				infra = "panic: " + s + "\n" + string(debug.Stack())
			}
		}()
		synctest.Test(t, func(t *testing.T) {
			defer func() {
				if r := recover(); r != nil {
					infra = "panic in bubble: " + fmt.Sprint(r) + "\n" + string(debug.Stack())
				}
			}()
			w.simStart = time.Now()
			w.main(replay)
		})
	}()
	if prof.Prop == "C09" {
		// in the HTTP profile the stored leaf and its issuers are what C09 states
		sim.Reattribute(0, "C02", "C09")
		sim.Reattribute(0, "C04", "C09")
	}
	if prof.Prop == "C06" {
		// with several instances, append-only history and complete storage are
		// part of C06's statement
		for _, q := range []string{"C01", "C02", "C03", "C04"} {
			sim.Reattribute(0, q, "C06")
		}
	}
	prof.raw = nil
	pj, _ := json.Marshal(prof)
	lastTrace = sim.Trace
	res = &core.RunResult{
		Seed: seed, Profile: pj, ProfileTag: prof.Tag, Steps: sim.Step,
		SimMillis: w.simMillis, LogHash: sim.LogHash(), SchedHash: core.SchedHash(sim.Trace),
		Faults: core.FaultCounts(sim.Trace), Probes: sim.Probes, Violations: sim.Viol, Infra: infra,
		WallMicros: time.Since(start).Microseconds(),
	}
	res.Nontrivial = len(res.Faults) > 0 || sim.Probes["concurrent.parked"] > 0
	if keepLog {
		res.Sample = sim.Log()
	}
	return res
}

func tmpRoot() string {
	if d := os.Getenv("VERIF_TMP"); d != "" {
		return d
	}
	if fi, err := os.Stat("/dev/shm"); err == nil && fi.IsDir() {
		return "/dev/shm"
	}
	return os.TempDir()
}

// ---------------------------------------------------------------------------

func (w *World) newInstance(idx int, st *Store) *Instance {
	p := w.prof
	wk, err := mldsa.NewPrivateKey(mldsa.MLDSA44(), hash32("witness key"))
	if err != nil {
		panic(err)
	}
	in := &Instance{w: w, idx: idx, name: "sim.example/log", key: logKey(), wkey: wk,
		store: st, cache: w.cachePath(idx), pool: p.PoolSize, period: time.Duration(p.PeriodMs) * time.Millisecond}
	return in
}

func hash32(s string) []byte { h := sha256.Sum256([]byte(s)); return h[:] }

func (w *World) main(replay []core.Cmd) {
	p := w.prof
	sim := w.sim
	w.stores = []*Store{newStore(0)}
	for i := 0; i < p.Instances; i++ {
		st := w.stores[0]
		if p.SeparateStorage && i > 0 {
			st = newStore(i)
			w.stores = append(w.stores, st)
		}
		w.insts = append(w.insts, w.newInstance(i, st))
	}
	// --- set-up, fault free and not scheduled -------------------------------
	w.auto = true
	in0 := w.insts[0]
	in0.inc = 0
	if err := ctlog.CreateLog(context.Background(), in0.config(0)); err != nil {
		panic("CreateLog: " + err.Error())
	}
	w.buildWorkload()
	if p.StartSize > 0 {
		w.prefill(in0)
	}
	w.auto = false
	sim.Logf("setup done size=%d", p.StartSize)

	if p.CreateW > 0 {
		cr := w.newInstance(len(w.insts), w.stores[0])
		cr.creator = true
		w.creator = cr
		w.insts = append(w.insts, cr)
	}
	// --- generation / replay --------------------------------------------------
	w.startLoad(in0)
	ri := 0
	for sim.Step < p.Steps {
		synctest.Wait()
		w.quiesce()
		var cmd core.Cmd
		if replay != nil {
			if ri >= len(replay) {
				break
			}
			cmd = replay[ri]
			ri++
		} else {
			en := w.enabled()
			if len(en) == 0 {
				break
			}
			cmd = sim.Choose(en)
		}
		if w.exec(cmd) {
			sim.Trace = append(sim.Trace, cmd)
			sim.Logf("cmd %s", cmd.String())
			sim.Step++
		}
	}
	synctest.Wait()
	w.quiesce()
	w.epilogue()
	w.simMillis = time.Since(w.simStart).Milliseconds()
}

// prefill grows the log to StartSize with fault-free rounds before the
// scheduled part of the run.
func (w *World) prefill(in *Instance) {
	cfg := in.config(0)
	cfg.PoolSize = 0
	l, err := ctlog.LoadLog(context.Background(), cfg)
	if err != nil {
		panic("prefill LoadLog: " + err.Error())
	}
	in.logs = append(in.logs, l)
	remaining := w.prof.StartSize
	k := 0
	for remaining > 0 {
		batch := remaining
		if k == 0 && remaining > 3 {
			batch = remaining - 2 // two rounds, so that partial tiles are left behind
		}
		var waits []ctlog.VerifWaitFunc
		var its []*Item
		for i := int64(0); i < batch; i++ {
			it := w.prefillItem()
			e := *it.Entry
			f, src := l.VerifAddLeafToPool(context.Background(), &e, false)
			if src != "sequencer" {
				panic("prefill: unexpected source " + src)
			}
			w.orc.admitted[it.Key]++
			waits = append(waits, f)
			its = append(its, it)
		}
		time.Sleep(time.Millisecond)
		if err := l.VerifSequence(context.Background()); err != nil {
			panic("prefill sequence: " + err.Error())
		}
		for i, f := range waits {
			le, err := f(context.Background())
			if err != nil {
				panic("prefill wait: " + err.Error())
			}
			s := &Submission{ID: len(w.subs), Item: its[i], Inst: in.idx, Inc: 0, Source: "sequencer", Done: true,
				Index: le.LeafIndex, Time: le.Timestamp, Returned: 1, prefill: true}
			w.subs = append(w.subs, s)
			w.orc.okAcks = append(w.orc.okAcks, s)
		}
		remaining -= batch
		k++
	}
	time.Sleep(time.Millisecond)
}

// ---------------------------------------------------------------------------
// quiescence hooks

func (w *World) quiesce() {
	w.flushNotes()
	for _, in := range w.insts {
		if in.crashPending {
			in.crashPending = false
			w.finishCrash(in, nil)
		}
	}
	for _, s := range w.subs[w.admChecked:] {
		// submissions that were parked before taking poolMu when doSubmit looked
		if s.Source != "" && !s.admissionChecked {
			s.admissionChecked = true
			w.orc.checkAdmission(w.insts[s.Inst], s)
		}
	}
	for w.admChecked < len(w.subs) && w.subs[w.admChecked].admissionChecked {
		w.admChecked++
	}
	w.checkRootsAgree()
	w.orc.checkAcks()
	w.orc.checkPools()
	w.orc.checkStops()
	for _, in := range w.insts {
		if in.justLoaded {
			in.justLoaded = false
			w.orc.checkReload(in)
		}
	}
	live := 0
	for _, op := range w.sim.Parked() {
		if !w.insts[op.Inst].dead {
			live++
		}
	}
	if live >= 2 {
		w.sim.Probe("concurrent.parked")
	}
}

// ---------------------------------------------------------------------------
// commands

func (w *World) liveParked() []*core.Op {
	var out []*core.Op
	for _, op := range w.sim.Parked() {
		in := w.insts[op.Inst]
		if in.dead || in.inc != op.Inc {
			continue
		}
		out = append(out, op)
	}
	return out
}

func (w *World) instParked(in *Instance) int {
	n := 0
	for _, op := range w.liveParked() {
		if op.Inst == in.idx {
			n++
		}
	}
	return n
}

func (w *World) enabled() []core.WCmd {
	p := w.prof
	r := w.sim.Rng
	var out []core.WCmd
	add := func(wt int, c core.Cmd) {
		if wt > 0 {
			out = append(out, core.WCmd{Cmd: c, W: wt})
		}
	}
	parked := w.liveParked()
	for _, op := range parked {
		okw := 100
		if w.insts[op.Inst].slow {
			okw = 2 // a slow node: its operations stay in flight for a long time
		}
		add(okw, core.Cmd{A: "rel", Op: op.ID, Out: core.OutOK})
		if p.OpErrW > 0 && op.Kind != "cache" && op.Kind != "yield" {
			ew := p.OpErrW
			if op.Kind == "get" && strings.HasPrefix(op.Key, "staging/") {
				ew *= 6 // the one read recovery depends on
			}
			add(ew, core.Cmd{A: "rel", Op: op.ID, Out: core.OutErrNot})
			if op.Mut {
				add(p.OpErrW, core.Cmd{A: "rel", Op: op.ID, Out: core.OutErrApplied})
			}
		}
	}
	anyLog := false
	if p.CreateW > 0 && w.creator != nil && w.creator.state != stLoading && w.creates < 3 {
		add(p.CreateW, core.Cmd{A: "create"})
	}
	for _, in := range w.insts {
		if in.creator {
			continue
		}
		if p.SlowW > 0 && (in.state == stRunning || in.state == stLoading) {
			if !in.slow {
				add(p.SlowW, core.Cmd{A: "slow", I: in.idx})
			} else {
				add(p.SlowW, core.Cmd{A: "fast", I: in.idx})
			}
		}
		switch in.state {
		case stDown:
			if in.idx > 0 {
				add(15, core.Cmd{A: "restart", I: in.idx})
			}
		case stRefused:
			add(8, core.Cmd{A: "restart", I: in.idx})
		case stCrashed, stStopped:
			add(40, core.Cmd{A: "restart", I: in.idx})
		case stRunning:
			anyLog = true
			idle := w.instParked(in) == 0
			if idle {
				pend, _ := poolInfo(in.log)
				wt := 15
				if pend > 0 {
					wt = 45
				}
				busy := 0
				for _, op := range parked {
					if op.Kind != "yield" {
						busy++ // a goroutine waiting for its turn at poolMu is not an operation in flight
					}
				}
				if busy > 0 && p.StallW == 0 && p.SlowW == 0 && p.Instances == 1 {
					wt = 0 // fault-free: time does not pass while operations are in flight
				}
				add(wt, core.Cmd{A: "tick", I: in.idx})
				add(p.StopW, core.Cmd{A: "stop", I: in.idx})
			} else if !w.cacheParked(in) && w.timeMoves == in.tickMoves {
				// only while no time has passed since the tick that started this
				// round: otherwise the ticker holds a tick, and whether the sequencer
				// sees the cancellation or that tick first is Go's random select
				add(p.StopW, core.Cmd{A: "stop", I: in.idx, S: "mid-round"})
			}
			if w.crashes < p.MaxCrashes {
				add(p.CrashW, core.Cmd{A: "crash", I: in.idx, L: w.drawSubset(in)})
			}
		case stLoading:
			if w.crashes < p.MaxCrashes {
				add(p.CrashW, core.Cmd{A: "crash", I: in.idx, L: w.drawSubset(in)})
			}
		}
		if in.state == stStopped && in.log != nil {
			anyLog = true
		}
	}
	if p.Bulk > 0 && w.bulkDone && !w.bulkCrashed && w.crashes < p.MaxCrashes {
		// the round that carries the burst: a crash while its tile uploads are in
		// flight (after the lock commit), so that a restart has to re-apply the
		// large staging bundle
		for _, in := range w.insts {
			n := 0
			for _, op := range parked {
				if op.Inst == in.idx && op.Kind == "up" && strings.HasPrefix(op.Key, "tile/") {
					n++
				}
			}
			if n >= 4 && in.state == stRunning && !in.dead {
				add(250, core.Cmd{A: "crash", I: in.idx, L: w.drawSubset(in), S: "bulk"})
				break
			}
		}
	}
	if p.Bulk > 0 && !w.bulkDone {
		for _, in := range w.insts {
			if in.log != nil && !in.dead && in.state == stRunning && !w.cacheParked(in) && w.instParked(in) == 0 {
				add(60, core.Cmd{A: "bulk", I: in.idx})
				break
			}
		}
	}
	if anyLog && w.nextItem < len(w.items) {
		for _, in := range w.insts {
			if in.log == nil || in.dead || (in.state != stRunning && in.state != stStopped) || w.cacheParked(in) {
				continue
			}
			wt := 40
			if in.state == stStopped {
				wt = 8
			}
			c := core.Cmd{A: "submit", I: in.idx, N: int64(w.nextItem)}
			if len(w.submitted) > 0 && r.Chance(p.DupPct, 100) {
				c.N = int64(w.submitted[r.Intn(len(w.submitted))])
				c.S = "dup"
			}
			if r.Chance(p.LowPct, 100) {
				c.S += "low"
			}
			if p.OpErrW > 0 && r.Chance(1, 4) {
				for i := 0; i < 4; i++ {
					v := 0
					if r.Chance(1, 3) {
						v = 1 + r.Intn(2)
					}
					c.L = append(c.L, v)
				}
			}
			if p.CrashW > 0 && w.crashes < p.MaxCrashes && r.Chance(1, 30) {
				c.L = []int{0, 3}
			}
			c.V = r.Intn(16)
			add(wt, c)
		}
	}
	if p.StallW > 0 && !w.stopping() {
		ds := []int64{1, 7, 300, 1000, 1001, 2500, 15001, 61000}
		add(p.StallW, core.Cmd{A: "adv", N: ds[r.Intn(len(ds))]})
		// a stall past the strict timeout while the checkpoint upload or the
		// lock update is in flight
		for _, op := range w.liveParked() {
			if (op.Kind == "up" && op.Key == "checkpoint") || op.Kind == "lreplace" {
				add(p.StallW*12, core.Cmd{A: "adv", N: 1001})
				break
			}
		}
		// ... and past the 15 s limit of a whole round while tile uploads are in flight
		for _, op := range w.liveParked() {
			if op.Kind == "up" && strings.HasPrefix(op.Key, "tile/") {
				add(p.StallW*4, core.Cmd{A: "adv", N: 15001})
				break
			}
		}
	}
	if p.ClockW > 0 {
		switch r.Intn(4) {
		case 0:
			add(p.ClockW, core.Cmd{A: "clock-back", N: []int64{1, 500, 5000, 3600000}[r.Intn(4)]})
		case 1:
			add(p.ClockW, core.Cmd{A: "clock-fwd", N: []int64{1, 500, 5000, 3600000}[r.Intn(4)]})
		case 2:
			if !w.clock.frozen {
				add(p.ClockW, core.Cmd{A: "clock-freeze"})
			} else {
				add(p.ClockW*4, core.Cmd{A: "clock-unfreeze"})
			}
		case 3:
			if w.clock.frozen {
				add(p.ClockW*4, core.Cmd{A: "clock-unfreeze"})
			}
		}
	}
	out = append(out, w.extraEnabled()...)
	return out
}

// drawSubset draws which of the instance's in-flight mutating operations take
// effect when it crashes.
func (w *World) drawSubset(in *Instance) []int {
	var l []int
	n := 0
	for _, op := range w.liveParked() {
		if op.Inst == in.idx && op.Mut {
			n++
		}
	}
	// a third each: an independent coin per operation, all but one, only one
	mode := w.sim.Rng.Intn(3)
	pick := 0
	if n > 0 {
		pick = w.sim.Rng.Intn(n)
	}
	for k := 0; k < n; k++ {
		switch {
		case mode == 0 && w.sim.Rng.Chance(1, 2), mode == 1 && k != pick, mode == 2 && k == pick:
			l = append(l, k)
		}
	}
	return l
}

func (w *World) exec(c core.Cmd) bool {
	switch c.A {
	case "rel":
		op := w.sim.ParkedOp(c.Op)
		if op == nil {
			return false
		}
		in := w.insts[op.Inst]
		if in.dead || in.inc != op.Inc {
			return false
		}
		p := op.Payload.(*pendingOp)
		out := c.Out
		if op.Kind == "cache" || op.Kind == "yield" {
			w.sim.Release(op, core.OutOK)
			return true
		}
		if out == core.OutOK && op.Ctx != nil && op.Ctx.Err() != nil {
			// the caller's deadline passed while the operation was in flight: a
			// context-honouring client returns the context error, whether or not
			// the request took effect on the other side
			out = core.OutErrApplied
			w.sim.Probe("fault.ctx-expired." + op.Kind)
		}
		if !op.Mut && out == core.OutErrApplied {
			out = core.OutErrNot
		}
		w.apply(in, op.Inc, op.Kind, op.Key, p, out != core.OutErrNot)
		if out != core.OutOK && op.Kind == "get" && op.Key == "_roots.pem" {
			in.rootsFetchFailed = true
		}
		if out != core.OutOK {
			err := error(errInjected)
			if op.Ctx != nil && op.Ctx.Err() != nil {
				err = fmt.Errorf("%w: %w", errInjected, op.Ctx.Err())
			}
			p.res = opResult{err: fmt.Errorf("%w (%s %s)", err, op.Kind, op.Key)}
			w.sim.Probe("fault." + out + "." + op.Kind)
		}
		w.sim.Release(op, out)
		return true
	case "tick":
		in := w.inst(c.I)
		if in == nil || in.state != stRunning || in.dead {
			return false
		}
		if w.stopping() {
			return false
		}
		time.Sleep(in.untilNextTick())
		w.timeMoves++
		in.tickMoves = w.timeMoves
		return true
	case "bulk":
		in := w.inst(c.I)
		if in == nil || in.log == nil || in.dead || in.state != stRunning || w.bulkDone || w.prof.Bulk == 0 {
			return false
		}
		w.bulkDone = true
		w.noYield = true
		defer func() { w.noYield = false }()
		l, inc := in.log, in.inc
		for i := 0; i < w.prof.Bulk; i++ {
			it := w.makeItem(500000+i, 3)
			if w.prof.BulkBytes > 0 {
				br := core.NewRand(core.Mix(w.sim.Seed, 0xb16+uint64(i)))
				big := make([]byte, w.prof.BulkBytes)
				for j := 0; j+8 <= len(big); j += 8 {
					binary.LittleEndian.PutUint64(big[j:], br.Uint64())
				}
				it.Entry.Certificate = append([]byte(fmt.Sprintf("big-junk-%d-", i)), big...)
				it.Key = independentCacheKey(it.Entry)
			}
			it.ID = -3000000 - i
			w.orc.itemsByKey[it.Key] = it
			w.smu.Lock()
			w.orc.admitted[it.Key]++
			w.smu.Unlock()
			e := *it.Entry
			f, _ := l.VerifAddLeafToPool(context.Background(), &e, false)
			go func() {
				_, err := f(context.Background())
				if in.inc != inc || in.dead {
					select {}
				}
				w.smu.Lock()
				if err == nil {
					w.bulkOK++
				} else {
					w.bulkErr++
				}
				w.smu.Unlock()
			}()
		}
		w.sim.Probe("bulk.submitted")
		return true
	case "adv":
		if c.N <= 0 {
			return false
		}
		if w.stopping() {
			return false
		}
		time.Sleep(time.Duration(c.N) * time.Millisecond)
		w.timeMoves++
		w.sim.Probe("fault.stall")
		return true
	case "submit":
		in := w.inst(c.I)
		if in == nil || in.log == nil || in.dead || (in.state != stRunning && in.state != stStopped) || w.cacheParked(in) {
			return false
		}
		if int(c.N) >= len(w.items) || c.N < 0 {
			return false
		}
		it := w.items[c.N]
		if int(c.N) == w.nextItem {
			w.nextItem++
		}
		if !contains(w.submitted, int(c.N)) {
			w.submitted = append(w.submitted, int(c.N))
		}
		low := strings.Contains(c.S, "low")
		w.doSubmit(in, it, low, c)
		return true
	case "crash":
		in := w.inst(c.I)
		if in == nil || in.dead || (in.state != stRunning && in.state != stLoading) {
			return false
		}
		if c.S == "bulk" {
			w.bulkCrashed = true
		}
		w.finishCrash(in, c.L)
		return true
	case "restart":
		in := w.inst(c.I)
		if in == nil || in.state == stRunning || in.state == stLoading {
			return false
		}
		if in.state == stStopped || in.state == stRefused {
			// the old process exits before the new one starts
			in.dead = true
		}
		w.startLoad(in)
		return true
	case "stop":
		in := w.inst(c.I)
		// also in the middle of a round: its in-flight operations then return the
		// context error when they are released
		if in == nil || in.state != stRunning || in.dead || w.cacheParked(in) || in.seqCancel == nil {
			return false
		}
		if w.instParked(in) != 0 {
			if w.timeMoves != in.tickMoves {
				return false
			}
			w.sim.Probe("stop.mid-round")
			in.stopping = true
		}
		in.seqCancel()
		w.sim.Probe("stop")
		return true
	case "create":
		if w.creator == nil || w.creator.state == stLoading {
			return false
		}
		w.startCreate()
		return true
	case "slow", "fast":
		in := w.inst(c.I)
		if in == nil || in.slow == (c.A == "slow") {
			return false
		}
		in.slow = c.A == "slow"
		w.sim.Probe("fault." + c.A)
		return true
	case "clock-back":
		w.clock.offsetMs -= c.N
		w.sim.Probe("fault.clock")
		return true
	case "clock-fwd":
		w.clock.offsetMs += c.N
		w.sim.Probe("fault.clock")
		return true
	case "clock-freeze":
		if w.clock.frozen {
			return false
		}
		w.clock.frozenAt = w.nowMilli()
		w.clock.frozen = true
		w.sim.Probe("fault.clock")
		return true
	case "clock-unfreeze":
		if !w.clock.frozen {
			return false
		}
		w.clock.frozen = false
		return true
	}
	return w.extraExec(c)
}

func contains(l []int, v int) bool {
	for _, x := range l {
		if x == v {
			return true
		}
	}
	return false
}

func (w *World) inst(i int) *Instance {
	if i < 0 || i >= len(w.insts) {
		return nil
	}
	return w.insts[i]
}

func (w *World) doSubmit(in *Instance, it *Item, low bool, c core.Cmd) *Submission {
	var restore func()
	pend, lows := in.log.VerifPool()
	if w.prof.NarrowEvict && !low && in.pool > 0 && pend >= in.pool && len(lows) > 1 {
		sort.Ints(lows)
		victim := lows[c.V%len(lows)]
		restore = in.log.VerifNarrowLowPriority(victim)
		w.sim.Probe("evict.narrowed")
	}
	var s *Submission
	if it.Spec != nil && w.prof.HTTP {
		want := w.expectAccept(in, it)
		s = w.submitHTTP(in, it, c.L)
		s.expectAccept = want
		w.smu.Lock()
		w.orc.admitted[it.Key]++
		w.smu.Unlock()
		s.rootTrusted = in.rootsMem[it.Spec.Root]
		s.faultedPlan = len(c.L) > 0
	} else {
		s = w.submit(in, it, low, c.L)
	}
	s.PoolLenBefore, s.LowBefore = pend, len(lows)
	synctest.Wait()
	if restore != nil {
		restore()
	}
	s.PoolLenAfter, s.LowAfter = poolInfo(in.log)
	if s.Source != "" {
		s.admissionChecked = true
		w.orc.checkAdmission(in, s)
	}
	return s
}

// finishCrash kills the current incarnation of in. applied lists which of its
// in-flight mutating operations (by canonical order) take effect.
func (w *World) finishCrash(in *Instance, applied []int) {
	k := 0
	for _, op := range w.sim.Parked() {
		if op.Inst != in.idx || op.Inc != in.inc {
			continue
		}
		if op.Mut {
			if contains(applied, k) {
				p := op.Payload.(*pendingOp)
				w.apply(in, op.Inc, op.Kind, op.Key, p, true)
				w.sim.Probe("crash.inflight.applied")
			} else {
				w.sim.Probe("crash.inflight.lost")
			}
			k++
		}
		w.sim.Forget(op)
	}
	phase := "idle"
	if k > 0 {
		phase = "inflight"
	}
	if in.state == stLoading {
		phase = "loading-" + phase
	}
	w.sim.Probe("crash." + phase)
	in.dead = true
	in.state = stCrashed
	w.crashes++
	w.sim.Logf("crash i%d.%d", in.idx, in.inc)
}

// ---------------------------------------------------------------------------
// epilogue: faults stop; the system must recover and make progress.

func (w *World) epilogue() {
	sim := w.sim
	sim.Logf("epilogue")
	p := w.prof
	w.inEpilogue = true
	if w.clock.frozen {
		w.clock.frozen = false
	}
	// make sure the wall clock is not behind any stored tree head
	var maxTS int64
	for _, h := range w.lock.hist {
		for _, ev := range h {
			if ev.STH != nil && ev.STH.Timestamp > maxTS {
				maxTS = ev.STH.Timestamp
			}
		}
	}
	if now := w.nowMilli(); now <= maxTS {
		w.clock.offsetMs += maxTS - now + 1
	}
	// keep one instance; the others are shut down
	primary := w.insts[0]
	for _, in := range w.insts[1:] {
		if in.creator {
			if in.state == stLoading {
				in.dead = true
				for _, op := range w.sim.Parked() {
					if op.Inst == in.idx {
						w.sim.Forget(op)
					}
				}
			}
			continue
		}
		if in.state == stRunning || in.state == stLoading {
			w.finishCrash(in, nil)
			w.crashes--
		}
	}
	if w.pastSunset() {
		w.epilogueSunset(primary)
		return
	}
	strict := !w.orc.tampered
	fresh := w.freshItem()
	var freshSub *Submission
	freshTries := 0
	// a load that was in flight when the faults stopped may still have seen
	// them (clock behind the tree head); only loads started from here on count
	epiInc := primary.inc + 1
	if primary.state == stLoading {
		w.finishCrash(primary, nil)
		w.crashes--
	}
	restarts := 0
	for iter := 0; ; iter++ {
		synctest.Wait()
		w.quiesce()
		if !strict && iter > 60 {
			break
		}
		if w.pastSunset() {
			w.epilogueSunset(primary)
			return
		}
		if iter > 400 {
			w.orc.v(p.livenessProp(), "no-progress", "log did not recover and sequence a fresh entry within 400 scheduler steps after faults stopped (state %s)", primary.state)
			break
		}
		if ops := w.liveParked(); len(ops) > 0 {
			op := ops[0]
			pp := op.Payload.(*pendingOp)
			if op.Kind != "cache" && op.Kind != "yield" {
				w.apply(w.insts[op.Inst], op.Inc, op.Kind, op.Key, pp, true)
			}
			sim.Release(op, core.OutOK)
			continue
		}
		switch primary.state {
		case stLoading:
			// nothing parked and still loading: cannot happen
			w.orc.v("C03", "load-hung", "LoadLog neither returned nor issued an operation")
			return
		case stRefused:
			if !strict && primary.inc >= epiInc {
				sim.Probe("tamper.refused")
				w.orc.finalChecks()
				return
			}
			if primary.inc >= epiInc {
				if w.orc.staleRegress && p.DiscardDeletes && strings.Contains(fmt.Sprint(primary.loadErr), "couldn't fetch staged uploads") {
					sim.ViolateSig("C03", "reload-failed", "stale-instance-publish",
						"restart failed after a stale instance re-published an older checkpoint and the newer round's staging bundle was already discarded: %v", primary.loadErr)
					return
				}
				w.orc.v("C03", "reload-failed", "restart with the same configuration failed after faults stopped: %v", primary.loadErr)
				return
			}
			fallthrough
		case stCrashed, stStopped, stDown:
			if restarts > 3 && !strict {
				sim.Probe("tamper.stopped")
				w.orc.finalChecks()
				return
			}
			if restarts > 3 {
				w.orc.v("C03", "restart-loop", "log keeps stopping after faults stopped: %v", primary.seqErr)
				return
			}
			restarts++
			primary.dead = true
			w.startLoad(primary)
			continue
		}
		// running
		if freshSub != nil && freshSub.Done && freshSub.Err != nil && freshSub.Inc == primary.inc &&
			(errors.Is(freshSub.Err, ctlog.VerifErrPoolFull) || errors.Is(freshSub.Err, ctlog.VerifErrEvicted)) && freshTries < 50 {
			// the pool is still full of earlier submissions: come back after a round
			freshSub = nil
			time.Sleep(primary.untilNextTick())
			continue
		}
		if freshSub == nil || (freshSub.Inc != primary.inc) {
			freshTries++
			freshSub = w.doSubmit(primary, fresh, false, core.Cmd{})
			continue
		}
		if !freshSub.Done || w.unfinished(primary) > 0 {
			time.Sleep(primary.untilNextTick())
			continue
		}
		break
	}
	// after a rebuilt cache: resubmit a few of the entries the tool read
	if strict && primary.state == stRunning && primary.recomputed != nil && primary.recomputedEpoch == primary.cacheEpoch {
		n := 0
		for _, precert := range []bool{true, false} {
			for _, it := range append(append([]*Item(nil), w.prefillItems...), w.items...) {
				if _, ok := primary.recomputed[it.Key]; ok && n < 6 && it.Entry.IsPrecert == precert {
					n++
					w.sim.Probe("recompute.epilogue.resubmit")
					w.doSubmit(primary, it, false, core.Cmd{})
				}
			}
		}
		for i := 0; i < 5 && w.unfinished(primary) > 0; i++ {
			time.Sleep(primary.untilNextTick())
			synctest.Wait()
			w.quiesce()
		}
		synctest.Wait()
		w.quiesce()
	}
	if !strict {
		w.orc.finalChecks()
		return
	}
	if freshSub != nil && freshSub.Done && freshSub.Err != nil {
		if freshSub.Inc == primary.inc {
			w.orc.v(p.livenessProp(), "fresh-entry-failed", "fresh entry was refused after faults stopped: %v", freshSub.Err)
		}
	}
	// C03: the tree committed in the lock store is completely in storage.
	id, _ := ctlog.VerifLogID(primary.key)
	if h := w.lock.hist[id]; len(h) > 0 {
		last := h[len(h)-1]
		if last.STH != nil {
			if !w.orc.auditAs(primary.store, last.STH, "final-lock", "C03") {
				sim.Probe("final.audit.failed")
			}
		}
	}
	w.orc.finalChecks()
	if p.Prop == "C06" {
		w.refusalProbes(primary)
	}
	if p.Prop == "C17" {
		w.evictBurst(primary)
	}
}

func (w *World) unfinished(in *Instance) int {
	n := 0
	for _, s := range w.subs {
		if s.Inst == in.idx && s.Inc == in.inc && !s.Done {
			n++
		}
	}
	return n
}

var _ = errors.Is
var _ = ref.TileWidth

// startCreate runs CreateLog against the existing log as a scheduled task: it
// must fail and change nothing, whatever fails underneath it (C06).
func (w *World) startCreate() {
	in := w.creator
	in.inc++
	inc := in.inc
	in.dead = false
	in.state = stLoading
	w.creates++
	cfg := in.config(inc)
	cfg.Cache = w.cachePath(90 + w.creates)
	w.sim.Probe("create.started")
	go func() {
		err := ctlog.CreateLog(context.Background(), cfg)
		if in.inc != inc || in.dead {
			select {}
		}
		in.state = stDown
		if err == nil {
			w.orc.v("C06", "create-over-existing", "CreateLog succeeded although the log exists")
		}
		w.note("create %d -> %v", inc, err != nil)
	}()
}

// cacheParked: a submitter of this instance is parked inside its cache lookup
// (only possible when the lookup runs outside poolMu). It may hold a lock we do
// not know about, so no other submitter of the instance is started meanwhile.
func (w *World) cacheParked(in *Instance) bool {
	for _, op := range w.sim.Parked() {
		if op.Inst == in.idx && op.Inc == in.inc && op.Kind == "cache" {
			return true
		}
	}
	return false
}

// logSeed is the secret seed file content; the log key is derived from it the
// way cmd/sunlight and cmd/recompute-cache do, so that the recompute tool can be
// pointed at a materialised copy of the simulated storage.
var logSeed = hash32("verifsim log seed")

func logKey() *ecdsa.PrivateKey {
	secret := make([]byte, 32)
	if _, err := io.ReadFull(hkdf.New(sha256.New, logSeed, []byte("sunlight"), []byte("ECDSA P-256 log key")), secret); err != nil {
		panic(err)
	}
	k, err := keygen.ECDSA(elliptic.P256(), secret)
	if err != nil {
		panic(err)
	}
	return k
}
