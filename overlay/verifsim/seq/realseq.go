package seq

import (
	"bytes"
	"context"
	"io"
	"log/slog"
	"testing"

	"filippo.io/sunlight/internal/ctlog"
)

func realUploadSequence(t *testing.T, dir string) {
	ctx := context.Background()
	be, err := ctlog.NewLocalBackend(ctx, dir, slog.New(slog.NewTextHandler(io.Discard, nil)))
	if err != nil {
		t.Fatal(err)
	}
	imm := &ctlog.UploadOptions{Immutable: true}
	data := bytes.Repeat([]byte("x"), 100)
	if err := be.Upload(ctx, "d1/d2/x", data, imm); err != nil {
		t.Fatal(err)
	}
	if err := be.Upload(ctx, "d1/d2/x", data, imm); err != nil {
		t.Fatal(err)
	}
	if err := be.Upload(ctx, "d1/y", data, nil); err != nil {
		t.Fatal(err)
	}
	if _, err := be.Fetch(ctx, "d1/y"); err != nil {
		t.Fatal(err)
	}
	if err := be.Discard(ctx, "d1/y"); err != nil {
		t.Fatal(err)
	}
}
