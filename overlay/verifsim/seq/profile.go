package seq

import (
	"bytes"
	"encoding/json"
	"fmt"
	"os"
	"time"

	"filippo.io/sunlight/internal/ctlog"
	"filippo.io/sunlight/internal/verifsim/core"
	"filippo.io/sunlight/internal/verifsim/corpus"
)

// Profile is the swarm configuration of one run, derived from its seed.
type Profile struct {
	Prop string `json:"prop"`
	Tag  string `json:"tag"`

	PoolSize  int   `json:"pool"`
	PeriodMs  int   `json:"period_ms"`
	StartSize int64 `json:"start_size"`
	Items     int   `json:"items"`
	DupPct    int   `json:"dup_pct"`
	LowPct    int   `json:"low_pct"`
	Shapes    []int `json:"shapes"`
	HTTP      bool  `json:"http,omitempty"`
	// Bulk: one burst of this many cheap entries, so that a single round (or a
	// recovered staging bundle) uploads more than 64 tiles in parallel.
	Bulk int `json:"bulk,omitempty"`
	// BulkBytes: size of each bulk entry's certificate (0: a few dozen bytes). A
	// few hundred entries of 48 KiB make a staging bundle of about 20 MiB.
	BulkBytes int `json:"bulk_bytes,omitempty"`
	// Yield: the goroutines of the log park before every acquisition of poolMu
	// and the scheduler decides who takes the lock first (submission against
	// pool rotation). No admission control in these runs: narrowing the
	// eviction victim needs a submission that runs to completion within a step.
	Yield bool `json:"yield,omitempty"`

	OpErrW     int `json:"op_err_w"`
	CrashW     int `json:"crash_w"`
	MaxCrashes int `json:"max_crashes"`
	ClockW     int `json:"clock_w"`
	StallW     int `json:"stall_w"`
	StopW      int `json:"stop_w"`
	CacheW     int `json:"cache_w,omitempty"`
	TamperW    int `json:"tamper_w,omitempty"`
	RootsW     int `json:"roots_w,omitempty"`
	SlowW      int `json:"slow_w,omitempty"`
	CreateW    int `json:"create_w,omitempty"`

	Instances       int  `json:"instances"`
	SeparateStorage bool `json:"separate_storage,omitempty"`
	RejectImmutable bool `json:"reject_immutable"`
	DiscardDeletes  bool `json:"discard_deletes"`
	NarrowEvict     bool `json:"narrow_evict"`
	Steps           int  `json:"steps"`
	// SunsetMs > 0 places the read-only date that many simulated ms after the
	// start of the run.
	SunsetMs int64 `json:"sunset_ms,omitempty"`
	// Scenario selects a scripted start-up state for C06/C08 refusal checks.
	Scenario string `json:"scenario,omitempty"`

	raw json.RawMessage
}

func (p *Profile) notAfterStart() time.Time { return corpus.Epoch }

func (p *Profile) notAfterLimit() time.Time {
	if p.SunsetMs > 0 {
		return corpus.Epoch.Add(time.Duration(p.SunsetMs)*time.Millisecond - ctlog.ReadOnlyAfter)
	}
	return corpus.Epoch.AddDate(1, 0, 0)
}

// livenessProp is the property a failure to make progress is attributed to.
func (p *Profile) livenessProp() string {
	if p.Prop == "C17" {
		return "C17"
	}
	return "C03"
}

var boundarySizes = []int64{0, 0, 1, 2, 254, 255, 256, 257, 258, 510, 511, 512, 513, 514, 767, 768, 769}

// MakeProfile derives the profile of a run for a property from its seed.
// faulty=false gives the fault-free twin configuration.
func MakeProfile(prop string, seed uint64, tier string) *Profile {
	r := core.NewRand(core.Mix(seed, 0x9f0f11e))
	p := &Profile{Prop: prop, Instances: 1, NarrowEvict: true}
	p.PoolSize = []int{0, 0, 1, 2, 3, 5, 8, 12}[r.Intn(8)]
	p.PeriodMs = []int{50, 200, 1000}[r.Intn(3)]
	p.StartSize = boundarySizes[r.Intn(len(boundarySizes))]
	if tier == "thorough" && r.Chance(1, 40) {
		p.StartSize = 65534 + int64(r.Intn(5))
	}
	if v := os.Getenv("VERIF_START_SIZE"); v != "" {
		fmt.Sscan(v, &p.StartSize) // targeted experiments only
	}
	p.Items = 6 + r.Intn(30)
	p.DupPct = []int{0, 10, 30}[r.Intn(3)]
	p.LowPct = []int{0, 20, 50}[r.Intn(3)]
	p.Shapes = nil
	for s := 0; s < 6; s++ {
		if r.Chance(2, 3) {
			p.Shapes = append(p.Shapes, s)
		}
	}
	if len(p.Shapes) == 0 {
		p.Shapes = []int{0}
	}
	p.RejectImmutable = r.Chance(1, 2)
	p.DiscardDeletes = r.Chance(1, 2)
	p.Steps = 150 + r.Intn(350)
	faulty := r.Chance(3, 4)
	p.Tag = "faultfree"
	if faulty {
		p.Tag = "faults"
		// swarm: each fault kind enabled independently
		if r.Chance(2, 3) {
			p.OpErrW = []int{2, 5, 15}[r.Intn(3)]
		}
		if r.Chance(2, 3) {
			p.CrashW = []int{2, 5, 10}[r.Intn(3)]
			p.MaxCrashes = 1 + r.Intn(4)
		}
		if r.Chance(1, 3) {
			p.ClockW = []int{1, 3}[r.Intn(2)]
		}
		if r.Chance(1, 3) {
			p.StallW = []int{2, 6}[r.Intn(2)]
		}
		if r.Chance(1, 4) {
			p.StopW = 2
		}
		if r.Chance(1, 4) {
			p.SlowW = 3
		}
	}
	if (prop == "C07" || prop == "C02" || prop == "C01" || prop == "C04" || prop == "C09") && r.Chance(1, 4) {
		p.Yield = true
		p.PoolSize = 0
		p.Tag += "+yield"
	}
	forceBulk := os.Getenv("VERIF_FORCE_BULK") // targeted experiments only: "small" or "large"
	bulkOdds := 16
	if prop == "C03" {
		bulkOdds = 10
	}
	if (prop == "C04" || prop == "C03") && (r.Chance(1, bulkOdds) || forceBulk != "") {
		p.Bulk = 5400 + r.Intn(1200)
		p.PoolSize = 0
		p.Tag += "+bulk"
		if p.MaxCrashes == 0 {
			p.MaxCrashes = 1
		}
		largeOdds := 3
		if prop == "C03" {
			largeOdds = 2
		}
		if (r.Chance(1, largeOdds) && forceBulk != "small") || forceBulk == "large" {
			p.Bulk = 400 + r.Intn(40)
			p.BulkBytes = 48 * 1024
			p.Tag += "-large"
		}
	}
	switch prop {
	case "C03":
		// crash-centric
		if faulty {
			p.CrashW = []int{5, 10, 20}[r.Intn(3)]
			p.MaxCrashes = 1 + r.Intn(4)
		}
	case "C17":
		p.PoolSize = 1 + r.Intn(12)
		p.LowPct = []int{30, 50, 70}[r.Intn(3)]
		p.Items = 20 + r.Intn(40)
		if faulty {
			p.StopW = 3
			if r.Chance(1, 3) {
				p.SunsetMs = int64(500 + r.Intn(20000))
			}
		}
		if r.Chance(1, 4) {
			// through the HTTP handlers: rate-limit and eviction answers must be 503 + Retry-After
			p.HTTP = true
			p.RootsW = 4
			p.PoolSize = 1 + r.Intn(4)
			p.Tag += "+http"
		}
	case "C07":
		p.DupPct = []int{30, 50, 70}[r.Intn(3)]
		if faulty {
			p.CacheW = 3
			if p.CrashW == 0 {
				p.CrashW = 3
				p.MaxCrashes = 2 + r.Intn(3)
			}
		}
		if r.Chance(1, 5) {
			// through the HTTP handlers: resubmissions must get byte-identical SCTs
			p.HTTP = true
			p.RootsW = 6
			p.PoolSize = 0
			p.Tag += "+http"
			p.Items = 10 + r.Intn(20)
		}
	case "C02":
		p.DupPct = []int{10, 30, 50}[r.Intn(3)]
		if r.Chance(1, 5) {
			// through the real HTTP handlers: the acknowledgement is an SCT
			p.HTTP = true
			p.RootsW = 6
			p.PoolSize = 0
			p.Tag += "+http"
			p.Items = 15 + r.Intn(25)
		}
	case "C06":
		p.Instances = 2 + r.Intn(2)
		p.Items = 10 + r.Intn(30)
		p.StallW = 0
		p.SlowW = []int{0, 3, 8}[r.Intn(3)]
		if r.Chance(1, 2) {
			p.CreateW = 3
			if p.OpErrW == 0 {
				p.OpErrW = 15
			}
		}
		if r.Chance(1, 3) {
			p.CrashW = 3
			p.MaxCrashes = 1 + r.Intn(3)
		}
	case "C09":
		p.HTTP = true
		p.PoolSize = 0
		p.Items = 15 + r.Intn(30)
		p.RootsW = 6
		p.StartSize = []int64{0, 1, 255}[r.Intn(3)]
		p.ClockW, p.StallW, p.StopW = 0, 0, 0
	case "C08":
		p.TamperW = []int{2, 5}[r.Intn(2)]
		p.Tag = "tamper"
		if p.CrashW == 0 {
			p.CrashW = 4
			p.MaxCrashes = 2 + r.Intn(3)
		}
		p.PoolSize = []int{0, 1, 2, 3}[r.Intn(4)]
	}
	return p
}

func (p *Profile) JSON() json.RawMessage {
	b, _ := json.Marshal(p)
	return b
}

func ProfileFromJSON(b []byte) (*Profile, error) {
	p := &Profile{}
	if err := json.Unmarshal(b, p); err != nil {
		return nil, err
	}
	return p, nil
}

// ---------------------------------------------------------------------------
// workload

func (w *World) buildWorkload() {
	p := w.prof
	r := core.NewRand(core.Mix(w.sim.Seed, 0x17e35))
	if p.HTTP {
		seen := map[[32]byte]bool{}
		for k := 0; k < p.Items; k++ {
			it := w.makeChainItem(k, r)
			if seen[it.Key] {
				continue
			}
			seen[it.Key] = true
			w.addItem(it)
			// the same leaf under a re-issued intermediate (same subject and key,
			// another certificate): the same entry, another chain
			if it.Spec.Issuer == "inter0" && it.Spec.Defect == "" && !it.Spec.Precert && r.Chance(1, 3) {
				c := corpus.Get()
				sp2 := *it.Spec
				sp2.Full = [][]byte{it.Spec.Full[0], c.Inter0b.DER, c.Root.DER}
				t := &Item{ID: k, Spec: &sp2, corpusIdx: it.corpusIdx, PreChain: it.PreChain, Parse: true, Key: it.Key, wrapperOf: it}
				t.Chain = [][]byte{it.Spec.Full[0], c.Inter0b.DER}
				if sp2.IncludeRoot {
					t.Chain = append(t.Chain, c.Root.DER)
				}
				t.Entry = expectedEntry(&sp2)
				it.altIssuers = append(it.altIssuers, t.Entry.Issuers)
				w.addItem(t)
				w.sim.Probe("workload.chain-twin")
			}
		}
		return
	}
	var lastPre *Item
	for k := 0; k < p.Items; k++ {
		shape := p.Shapes[r.Intn(len(p.Shapes))]
		it := w.makeItem(1000+k, shape)
		if shape == 2 && lastPre != nil && r.Chance(1, 4) {
			// the same entry (same TBS, same issuer key) in another pre_certificate
			// encoding: other signature bits. It must deduplicate like a resubmission.
			e := *lastPre.Entry
			pre := bytes.Clone(e.PreCertificate)
			pre[len(pre)-1] ^= 1
			e.PreCertificate = pre
			it.Entry = &e
			it.Key = lastPre.Key
			it.wrapperOf = lastPre
			it.ID = k
			w.addItem(it)
			w.sim.Probe("workload.precert-rewrapped")
			continue
		}
		if shape == 2 {
			if lastPre != nil && r.Chance(1, 3) {
				// the same TBS under another issuer key: a distinct entry
				c := corpus.Get()
				e := *lastPre.Entry
				e.IssuerKeyHash = c.Inter[1].SPKIHash()
				e.PreCertificate = c.Leaf(lastPre.corpusIdx, corpus.LeafOpts{Precert: true, Issuer: c.Inter[1]})
				e.Issuers = [][]byte{c.Inter[1].DER, c.Inter[0].DER}
				it.Entry = &e
				it.Key = independentCacheKey(&e)
				lastPre = nil
				w.sim.Probe("workload.precert-twin")
			} else {
				lastPre = it
			}
		}
		it.ID = k
		w.addItem(it)
	}
}

func (w *World) addItem(it *Item) {
	it.ID = len(w.items)
	w.items = append(w.items, it)
	if prev, ok := w.orc.itemsByKey[it.Key]; ok && prev != it {
		if it.wrapperOf != nil && (prev == it.wrapperOf || prev.wrapperOf == it.wrapperOf) {
			first := it.wrapperOf
			if it.Entry.PreCertificate != nil {
				first.wrappers = append(first.wrappers, it.Entry.PreCertificate)
			}
			return // the group is known under its first item
		}
		panic(fmt.Sprintf("workload items %d and %d collide", prev.ID, it.ID))
	}
	w.orc.itemsByKey[it.Key] = it
}

// prefillItem returns a fresh item used only to grow the log before the
// scheduled part of a run. Mostly cheap junk entries, some real certificates.
func (w *World) prefillItem() *Item {
	k := w.prefillN
	w.prefillN++
	shape := 3
	switch {
	case k%17 == 0:
		shape = 0
	case k%29 == 0:
		shape = 2
	}
	it := w.makeItem(100000+k, shape)
	it.ID = -1 - k
	if prev, ok := w.orc.itemsByKey[it.Key]; ok && prev != it {
		panic("prefill item collides")
	}
	w.orc.itemsByKey[it.Key] = it
	w.prefillItems = append(w.prefillItems, it)
	return it
}

func (w *World) freshItem() *Item {
	it := w.makeItem(900000, 0)
	it.ID = -1000000
	w.orc.itemsByKey[it.Key] = it
	return it
}
