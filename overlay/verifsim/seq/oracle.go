package seq

import (
	"bytes"
	"compress/gzip"
	"crypto/sha256"
	"crypto/x509"
	"encoding/base64"
	"encoding/hex"
	"encoding/json"
	"errors"
	"fmt"
	"io"
	"sort"
	"strconv"
	"strings"

	"filippo.io/sunlight"
	"filippo.io/sunlight/internal/ctlog"
	"filippo.io/sunlight/internal/verifsim/ref"
	"filippo.io/torchwood"
	ct "github.com/google/certificate-transparency-go"
	cttls "github.com/google/certificate-transparency-go/tls"
	"golang.org/x/mod/sumdb/note"
)

// groundTruth is the leaf sequence of one log as first read from durable
// data tiles with the independent decoder.
type groundTruth struct {
	entries  []*ref.Entry
	tree     ref.Tree
	verified map[string]int // object key -> Obj.Ver that passed the audit
	tiles    map[string][]*ref.Entry
	tilesVer map[string]int
	// preTamper: number of leaves known before the first tamper action.
}

type roundInfo struct {
	casLost bool
}

type oracle struct {
	w  *World
	gt map[int]*groundTruth // per store index

	acks     []*Submission // completed since last quiescence
	okAcks   []*Submission // every successful acknowledgement of a live incarnation
	admitted map[[32]byte]int
	itemsByKey map[[32]byte]*Item

	clockReadings map[int64]bool
	sigSeen       map[string][]byte

	// instances that lost a CAS: inst.idx -> inc
	casLost map[[2]int]int // (inst,inc) -> step
	lockOpsAfterLoss map[[2]int]int

	tampered  bool
	audits    int
	evictions int
	sctSeen   map[[32]byte]sctRec

	preTamper       []*ref.Entry
	preTamperLock   int
	firstTamperStep int
	intended        map[int64][]*ref.Entry
	stagedBad       []stagedBad
	ackSeen         map[string][2]int64
	casPending      map[[2]int]bool
	staleRegress    bool
	otherCkpts      [][]byte
	rejectedKeys    map[[32]byte]*Item
}

func newOracle(w *World) *oracle {
	return &oracle{w: w, gt: map[int]*groundTruth{}, admitted: map[[32]byte]int{},
		itemsByKey: map[[32]byte]*Item{}, clockReadings: map[int64]bool{}, sigSeen: map[string][]byte{},
		casLost: map[[2]int]int{}, lockOpsAfterLoss: map[[2]int]int{}, sctSeen: map[[32]byte]sctRec{},
		rejectedKeys: map[[32]byte]*Item{}, intended: map[int64][]*ref.Entry{}, ackSeen: map[string][2]int64{}, casPending: map[[2]int]bool{}}
}

func (o *oracle) truth(st *Store) *groundTruth {
	g := o.gt[st.idx]
	if g == nil {
		g = &groundTruth{verified: map[string]int{}, tiles: map[string][]*ref.Entry{}, tilesVer: map[string]int{}}
		o.gt[st.idx] = g
	}
	return g
}

func (o *oracle) v(prop, class, format string, a ...any) { o.w.sim.Violate(prop, class, format, a...) }

// ---------------------------------------------------------------------------
// Write-time monitors

func (o *oracle) onUpload(inst *Instance, inc int, st *Store, key string, p *pendingOp) {
	w := o.w
	imm := p.opts != nil && p.opts.Immutable
	h := sha256.Sum256(p.data)
	if prev, ok := st.immSeen[key]; ok && prev != h {
		o.v("C04", "immutable-rewrite", "i%d.%d uploads different bytes to immutable key %s", inst.idx, inc, key)
	}
	if imm {
		st.immSeen[key] = h
	}
	if key == "checkpoint" || key == "_roots.pem" {
		if imm {
			o.v("C04", "mutable-as-immutable", "key %s uploaded as immutable", key)
		}
	} else if !imm && !w.auto {
		o.v("C04", "immutable-flag-missing", "key %s uploaded without Immutable", key)
	}
	if strings.HasPrefix(key, "staging/") {
		// only what sunlight authored: the bundle a sequencing round builds. Data
		// tiles are also uploaded by recovery, from a bundle that may have been
		// tampered with.
		o.recordIntended(key, p.data)
		if inst.state == stRunning {
			inst.staged = stagedMembers(p.data)
		}
	} else if inst.state == stRunning && inst.staged != nil && strings.HasPrefix(key, "tile/") {
		// a round uploads the tiles it staged, from memory: whatever happens to the
		// bundle object meanwhile cannot change them (C08)
		if want, ok := inst.staged[key]; ok && !bytes.Equal(want, p.data) {
			o.v("C08", "uploaded-other-than-staged", "i%d.%d uploads %s with other bytes than the staging bundle its round built holds for that key", inst.idx, inc, key)
		}
	}
	if cur, ok := st.objs[key]; ok && cur.Opts.Immutable {
		if bytes.Equal(cur.Data, p.data) {
			return // idempotent re-upload
		}
		if w.prof.RejectImmutable {
			p.res = opResult{err: fmt.Errorf("%w: %s", errImmutable, key)}
			return
		}
	}
	st.put(key, p.data, p.opts)
	w.sim.Probe("effect.up")
	switch {
	case key == "checkpoint":
		o.onPublish(inst, inc, st, p.data)
	case strings.HasPrefix(key, "staging/"):
		w.sim.Probe("effect.staging")
	case strings.HasPrefix(key, "tile/"):
		if c, ok := ref.ParsePath(key); !ok {
			o.v("C04", "bad-tile-path", "upload to non-canonical tile path %q", key)
		} else {
			o.checkTileOpts(key, c, p.opts)
		}
	case strings.HasPrefix(key, "issuer/"):
		want := fmt.Sprintf("issuer/%x", h)
		if key != want {
			o.v("C04", "issuer-hash", "issuer object %s does not hash to its name", key)
		}
		if p.opts == nil || p.opts.ContentType != "application/pkix-cert" {
			o.v("C04", "issuer-content-type", "issuer object %s has wrong content type", key)
		}
	case key == "_roots.pem":
	default:
		o.v("C04", "unknown-key", "upload to unexpected key %q", key)
	}
}

func (o *oracle) checkTileOpts(key string, c ref.TileCoord, opts *ctlog.UploadOptions) {
	if opts == nil {
		return
	}
	switch c.Level {
	case -1:
		if !opts.Compressed {
			o.v("C04", "data-tile-encoding", "data tile %s not marked gzip", key)
		}
	case -2:
		if !opts.Compressed || !strings.HasPrefix(opts.ContentType, "application/jsonl") {
			o.v("C04", "names-tile-encoding", "names tile %s has wrong metadata", key)
		}
	default:
		if opts.Compressed {
			o.v("C04", "hash-tile-encoding", "hash tile %s marked gzip", key)
		}
	}
}

func (o *oracle) onDiscard(inst *Instance, inc int, st *Store, key string, p *pendingOp) {
	w := o.w
	if !strings.HasPrefix(key, "staging/") {
		o.v("C04", "discard-nonstaging", "i%d.%d discards %s", inst.idx, inc, key)
	} else {
		// C03: never before the published checkpoint caught up with it.
		n, root, ok := parseStagingKey(key)
		pub := o.lastPublished(st)
		switch {
		case !ok:
			o.v("C03", "discard-unparsed", "discard of malformed staging key %s", key)
		case pub != nil && pub.STH != nil && pub.STH.Size < n && pub.StaleLock:
			w.sim.ViolateSig("C03", "discard-early", "stale-instance-publish",
				"i%d.%d discards %s while the published checkpoint (written by a stale instance) has size %d", inst.idx, inc, key, pub.STH.Size)
		case pub == nil || pub.STH == nil || pub.STH.Size < n:
			sz := int64(-1)
			if pub != nil && pub.STH != nil {
				sz = pub.STH.Size
			}
			o.v("C03", "discard-early", "i%d.%d discards %s while the published checkpoint has size %d", inst.idx, inc, key, sz)
		case pub.STH.Size == n && pub.STH.Root != root:
			o.v("C03", "discard-early", "i%d.%d discards %s while the published size-%d checkpoint has another root", inst.idx, inc, key, n)
		}
		w.sim.Probe("effect.discard")
	}
	if w.prof.DiscardDeletes {
		if _, ok := st.objs[key]; ok {
			delete(st.objs, key)
			st.ver++
		} else {
			p.res = opResult{err: fmt.Errorf("%w: %s", errNotFound, key)}
		}
	}
}

func parseStagingKey(key string) (int64, ref.Hash, bool) {
	rest := strings.TrimPrefix(key, "staging/")
	i := strings.IndexByte(rest, '-')
	if i < 0 {
		return 0, ref.Hash{}, false
	}
	n, err := strconv.ParseInt(rest[:i], 10, 64)
	if err != nil {
		return 0, ref.Hash{}, false
	}
	hb, err := hex.DecodeString(rest[i+1:])
	if err != nil || len(hb) != 32 {
		return 0, ref.Hash{}, false
	}
	var h ref.Hash
	copy(h[:], hb)
	return n, h, true
}

func (o *oracle) lastPublished(st *Store) *CkptEvent {
	if len(st.pubHist) == 0 {
		return nil
	}
	return st.pubHist[len(st.pubHist)-1]
}

func (o *oracle) verifyCkpt(inst *Instance, b []byte) (*ref.VerifiedSTH, error) {
	return ref.VerifyLogCheckpoint(b, inst.name, &inst.key.PublicKey)
}

func (o *oracle) onLockCommit(inst *Instance, inc int, id [32]byte, b []byte, how string) {
	w := o.w
	ev := &CkptEvent{Step: w.sim.Step, Inst: inst.idx, Inc: inc, Where: "lock", Bytes: bytes.Clone(b)}
	ev.STH, ev.Err = o.verifyCkpt(inst, b)
	hist := w.lock.hist[id]
	w.lock.hist[id] = append(hist, ev)
	w.sim.Probe("effect.lock." + how)
	if k := [2]int{inst.idx, inc}; o.casLost[k] != 0 {
		o.v("C06", "commit-after-cas-loss", "i%d.%d committed a checkpoint after losing a CAS at step %d", inst.idx, inc, o.casLost[k])
	}
	if inst.state == stStopped && !w.auto {
		o.v("C17", "commit-after-stop", "i%d.%d committed a checkpoint after its sequencer stopped", inst.idx, inc)
	}
	if ev.STH == nil {
		o.v("C11", "lock-checkpoint-unverifiable", "checkpoint committed to the lock store does not verify independently: %v", ev.Err)
		return
	}
	w.note("lock %s i%d.%d size=%d root=%s ts=%d", how, inst.idx, inc, ev.STH.Size, ev.STH.Root, ev.STH.Timestamp)
	o.checkSigned(inst, ev)
	o.checkVerifierStrict(inst, ev)
	if len(hist) > 0 {
		prev := hist[len(hist)-1]
		if prev.STH != nil {
			if ev.STH.Size < prev.STH.Size {
				o.v("C01", "lock-size-shrinks", "lock store went from size %d to %d", prev.STH.Size, ev.STH.Size)
			}
			if ev.STH.Timestamp <= prev.STH.Timestamp {
				o.v("C01", "lock-time-not-increasing", "lock store tree-head time went from %d to %d", prev.STH.Timestamp, ev.STH.Timestamp)
			}
			if ev.STH.Size == prev.STH.Size && ev.STH.Root != prev.STH.Root {
				o.v("C01", "lock-fork-same-size", "lock store has two roots at size %d", ev.STH.Size)
			}
		}
	}
}

// checkSigned is the signing half of C11 on a checkpoint sunlight produced.
func (o *oracle) checkSigned(inst *Instance, ev *CkptEvent) {
	w := o.w
	sth := ev.STH
	// sunlight's own public verifier + the ML-DSA cosignature
	v1, err := sunlight.NewRFC6962Verifier(inst.name, inst.key.Public())
	if err != nil {
		o.v("C11", "verifier-construct", "%v", err)
		return
	}
	v2, err := torchwood.NewCosignatureVerifierFromKey(inst.name, inst.wkey.PublicKey())
	if err != nil {
		o.v("C11", "verifier-construct", "%v", err)
		return
	}
	n, err := note.Open(ev.Bytes, note.VerifierList(v1, v2))
	if err != nil {
		o.v("C11", "note-open", "signed checkpoint does not open with the public verifiers: %v", err)
		return
	}
	var f1, f2 bool
	for _, s := range n.Sigs {
		if s.Hash == v1.KeyHash() && s.Name == v1.Name() {
			f1 = true
			ts, err := sunlight.RFC6962SignatureTimestamp(s)
			if err != nil || ts != sth.Timestamp {
				o.v("C11", "embedded-timestamp", "embedded timestamp %d (err %v) differs from independently parsed %d", ts, err, sth.Timestamp)
			}
		}
		if s.Hash == v2.KeyHash() && s.Name == v2.Name() {
			f2 = true
		}
	}
	if !f1 {
		o.v("C11", "missing-log-signature", "no verified RFC 6962 signature")
	}
	if !f2 {
		o.v("C11", "missing-cosignature", "no verified ML-DSA cosignature by the log's witness key")
	}
	// independent CT verifier over the rebuilt tree head
	sv, err := ct.NewSignatureVerifier(inst.key.Public())
	if err == nil {
		var ds ct.DigitallySigned
		if rest, err := cttls.Unmarshal(sth.SigBytes, &ds); err != nil || len(rest) != 0 {
			o.v("C11", "ct-signature-parse", "TreeHeadSignature does not parse as DigitallySigned: %v", err)
		} else {
			h := ct.SignedTreeHead{Version: ct.V1, TreeSize: uint64(sth.Size), Timestamp: uint64(sth.Timestamp),
				TreeHeadSignature: ds}
			copy(h.SHA256RootHash[:], sth.Root[:])
			if err := sv.VerifySTHSignature(h); err != nil {
				o.v("C11", "ct-signature", "independent CT verifier rejects the tree head: %v", err)
			}
		}
	}
	if !w.auto || true {
		if !o.clockReadings[sth.Timestamp] {
			o.v("C11", "timestamp-not-clock", "tree-head timestamp %d was never returned by the clock", sth.Timestamp)
		}
	}
	k := fmt.Sprintf("%d/%x/%d", sth.Size, sth.Root, sth.Timestamp)
	if prev, ok := o.sigSeen[k]; ok && !bytes.Equal(prev, sth.SigBytes) {
		o.v("C11", "nondeterministic-signature", "two different signatures over the same tree head %s", k)
	}
	o.sigSeen[k] = sth.SigBytes
	// signing is deterministic: signing the same tree head again with the log's
	// configuration gives the same RFC 6962 signature bytes
	if (w.prof.Prop == "C11" || len(o.sigSeen) == 1) && inst.cfg != nil {
		if again, err := ctlog.VerifSignTreeHead(inst.cfg, sth.Size, [32]byte(sth.Root), sth.Timestamp); err == nil {
			if sth2, err := o.verifyCkpt(inst, again); err == nil && sth2 != nil {
				w.sim.Probe("c11.resigned")
				if !bytes.Equal(sth2.SigBytes, sth.SigBytes) {
					o.v("C11", "nondeterministic-signature", "signing tree head %s again gives other RFC 6962 signature bytes", k)
				}
			}
		}
		// a second log of the same operator in the same process: other name, the
		// same key objects. Its checkpoints carry ITS OWN cosignature.
		alias := *inst.cfg
		alias.Name = inst.name + "-sibling"
		if ck, err := ctlog.VerifSignTreeHead(&alias, sth.Size, [32]byte(sth.Root), sth.Timestamp); err == nil {
			av1, e1 := sunlight.NewRFC6962Verifier(alias.Name, inst.key.Public())
			av2, e2 := torchwood.NewCosignatureVerifierFromKey(alias.Name, inst.wkey.PublicKey())
			if e1 == nil && e2 == nil {
				w.sim.Probe("c11.sibling")
				an, err := note.Open(ck, note.VerifierList(av1, av2))
				if err != nil {
					o.v("C11", "sibling-log", "a checkpoint signed for %s (same keys, same process) does not open with its verifiers: %v", alias.Name, err)
				} else {
					var s1, s2 bool
					for _, s := range an.Sigs {
						s1 = s1 || (s.Name == av1.Name() && s.Hash == av1.KeyHash())
						s2 = s2 || (s.Name == av2.Name() && s.Hash == av2.KeyHash())
					}
					if !s1 || !s2 {
						o.v("C11", "sibling-log", "a checkpoint signed for %s (same keys, same process) lacks its own RFC 6962 signature (%v) or ML-DSA cosignature (%v)", alias.Name, s1, s2)
					}
				}
			}
		}
	}
}

func (o *oracle) onPublish(inst *Instance, inc int, st *Store, b []byte) {
	w := o.w
	ev := &CkptEvent{Step: w.sim.Step, Inst: inst.idx, Inc: inc, Where: fmt.Sprintf("store%d", st.idx), Bytes: bytes.Clone(b)}
	ev.STH, ev.Err = o.verifyCkpt(inst, b)
	prev := o.lastPublished(st)
	st.pubHist = append(st.pubHist, ev)
	w.sim.Probe("effect.publish")
	if ev.STH == nil {
		o.v("C11", "published-checkpoint-unverifiable", "published checkpoint does not verify independently: %v", ev.Err)
		return
	}
	w.note("publish i%d.%d size=%d root=%s ts=%d", inst.idx, inc, ev.STH.Size, ev.STH.Root, ev.STH.Timestamp)
	// M-lockfirst
	id, _ := ctlog.VerifLogID(inst.key)
	found, own := false, false
	var lockLast *CkptEvent
	for _, le := range w.lock.hist[id] {
		if le.STH != nil && le.STH.Size == ev.STH.Size && le.STH.Root == ev.STH.Root && le.STH.Timestamp == ev.STH.Timestamp {
			found = true
			// committed by the publishing incarnation itself (its own round)
			own = own || (le.Inst == inst.idx && le.Inc == inc)
		}
		lockLast = le
	}
	if !found {
		o.v("C01", "published-before-lock", "checkpoint size=%d ts=%d published without having been committed to the lock store", ev.STH.Size, ev.STH.Timestamp)
	}
	stale := lockLast != nil && lockLast.STH != nil && (lockLast.STH.Size != ev.STH.Size || lockLast.STH.Root != ev.STH.Root || lockLast.STH.Timestamp != ev.STH.Timestamp) &&
		(lockLast.Inst != inst.idx || lockLast.Inc != inc)
	ev.StaleLock = stale && own
	if prev != nil && prev.STH != nil {
		regress := ev.STH.Size < prev.STH.Size || ev.STH.Timestamp <= prev.STH.Timestamp
		if regress {
			if stale && own && len(w.insts) > 1 {
				// Known finding C06-1: an instance publishes the checkpoint of its own
				// round after a newer instance has overtaken it. (A stale checkpoint
				// published by anyone else, e.g. by a loading instance, is not that.)
				o.staleRegress = true
				w.sim.ViolateSig("C01", "published-regress", "stale-instance-publish",
					"published checkpoint went from size %d/ts %d to size %d/ts %d (publisher i%d.%d holds a stale lock value)",
					prev.STH.Size, prev.STH.Timestamp, ev.STH.Size, ev.STH.Timestamp, inst.idx, inc)
			} else {
				o.v("C01", "published-regress", "published checkpoint went from size %d/ts %d to size %d/ts %d",
					prev.STH.Size, prev.STH.Timestamp, ev.STH.Size, ev.STH.Timestamp)
			}
		}
		if ev.STH.Size == prev.STH.Size && ev.STH.Root != prev.STH.Root {
			o.v("C01", "published-fork-same-size", "two published roots at size %d", ev.STH.Size)
		}
	}
	// C04: the checkpoint must be backed by what is durable right now.
	o.audit(st, ev.STH, "publish")
}

func (o *oracle) onCASLost(inst *Instance, inc int) {
	o.casLost[[2]int{inst.idx, inc}] = o.w.sim.Step
	if !o.w.auto {
		o.casPending[[2]int{inst.idx, inc}] = true
	}
	o.w.sim.Probe("cas.lost")
	o.w.note("cas lost i%d.%d", inst.idx, inc)
}

func (o *oracle) onLoadResult(in *Instance, inc int, l *ctlog.Log, err error) {}

func (o *oracle) onSequencerStopped(in *Instance, inc int, err error) {
	in.stopStep = o.w.sim.Step
	if err != nil && errors.Is(err, ctlog.VerifErrFatal) {
		o.w.sim.Probe("seq.fatal")
	}
}

func (o *oracle) onAdmission(in *Instance, s *Submission) {
	if s.Source == "sequencer" {
		o.w.smu.Lock()
		o.admitted[s.Item.Key]++
		o.w.smu.Unlock()
	}
}

func (o *oracle) pendingAcks(s *Submission) {
	o.w.notesMu.Lock()
	o.acks = append(o.acks, s)
	o.w.notesMu.Unlock()
}

func (o *oracle) parseSCT(in *Instance, s *Submission) {
	var rsp ct.AddChainResponse
	if err := json.Unmarshal(s.SCT, &rsp); err != nil {
		s.Err = fmt.Errorf("unparseable SCT response: %v", err)
		o.v("C02", "sct-unparseable", "sub %d: %v", s.ID, err)
		return
	}
	s.Time = int64(rsp.Timestamp)
	ext, err := base64.StdEncoding.DecodeString(rsp.Extensions)
	if err != nil || len(ext) != 8 || ext[0] != 0 || ext[1] != 0 || ext[2] != 5 {
		o.v("C02", "sct-extension", "sub %d: malformed leaf index extension %q", s.ID, rsp.Extensions)
		return
	}
	s.Index = int64(ext[3])<<32 | int64(ext[4])<<24 | int64(ext[5])<<16 | int64(ext[6])<<8 | int64(ext[7])
	s.sctRsp = &rsp
}

// ---------------------------------------------------------------------------
// Reading durable storage independently

func gunzip(b []byte) ([]byte, error) {
	r, err := gzip.NewReader(bytes.NewReader(b))
	if err != nil {
		return nil, err
	}
	out, err := io.ReadAll(r)
	if err != nil {
		return nil, err
	}
	return out, nil
}

// dataTile decodes a data tile object with the independent decoder.
func (o *oracle) dataTile(st *Store, c ref.TileCoord) ([]*ref.Entry, error) {
	g := o.truth(st)
	key := c.Path()
	obj, ok := st.objs[key]
	if !ok {
		return nil, fmt.Errorf("object %s missing", key)
	}
	if g.tilesVer[key] == obj.Ver {
		return g.tiles[key], nil
	}
	raw, err := gunzip(obj.Data)
	if err != nil {
		return nil, fmt.Errorf("object %s is not gzip: %v", key, err)
	}
	es, err := ref.DecodeDataTile(raw, c.W)
	if err != nil {
		return nil, fmt.Errorf("object %s: %v", key, err)
	}
	var re []byte
	for _, e := range es {
		re = e.AppendTileLeaf(re)
	}
	if !bytes.Equal(re, raw) {
		return nil, fmt.Errorf("object %s is not canonically encoded", key)
	}
	g.tiles[key] = es
	g.tilesVer[key] = obj.Ver
	return es, nil
}

// leafAt returns the leaf stored at idx in the tree of the given size.
func (o *oracle) leafAt(st *Store, size, idx int64) (*ref.Entry, error) {
	if idx < 0 || idx >= size {
		return nil, fmt.Errorf("index %d outside tree of size %d", idx, size)
	}
	c := ref.TileCoord{Level: -1, N: idx / ref.TileWidth, W: ref.TileWidth}
	if c.N == size/ref.TileWidth {
		c.W = int(size % ref.TileWidth)
	}
	es, err := o.dataTile(st, c)
	if err != nil {
		return nil, err
	}
	return es[idx%ref.TileWidth], nil
}

// audit is M-audit(n, root): the objects durable in st right now render
// exactly a tree of the checkpoint's size with its root.
func (o *oracle) audit(st *Store, sth *ref.VerifiedSTH, why string) bool {
	if o.tampered {
		return true // storage is no longer sunlight's doing; C08 has its own oracle
	}
	o.audits++
	g := o.truth(st)
	n := sth.Size
	ok := true
	fail := func(class, format string, a ...any) {
		ok = false
		o.v("C04", class, "audit(%s size=%d): %s", why, n, fmt.Sprintf(format, a...))
	}
	tiles := ref.RequiredTiles(n, true)
	// data tiles first, in index order
	var data, names, hashes []ref.TileCoord
	for _, c := range tiles {
		switch c.Level {
		case -1:
			data = append(data, c)
		case -2:
			names = append(names, c)
		default:
			hashes = append(hashes, c)
		}
	}
	for _, c := range data {
		key := c.Path()
		obj := st.objs[key]
		if obj != nil && g.verified[key] == obj.Ver {
			continue
		}
		es, err := o.dataTile(st, c)
		if err != nil {
			fail("data-tile", "%v", err)
			continue
		}
		good := true
		for i, e := range es {
			idx := c.N*ref.TileWidth + int64(i)
			if e.Index != idx {
				fail("leaf-index", "leaf at position %d carries index %d", idx, e.Index)
				good = false
			}
			if e.Timestamp > sth.Timestamp {
				fail("leaf-timestamp", "leaf %d has timestamp %d after the tree head's %d", idx, e.Timestamp, sth.Timestamp)
				good = false
			}
			if idx < int64(len(g.entries)) {
				if !g.entries[idx].Equal(e) {
					fail("leaf-changed", "leaf %d differs from the one stored earlier", idx)
					good = false
				}
			} else if idx == int64(len(g.entries)) {
				g.entries = append(g.entries, e)
				g.tree.Append(e.LeafHash())
				o.checkLeafProvenance(st, e, fail)
			} else {
				fail("leaf-gap", "leaf %d read before leaf %d", idx, len(g.entries))
				good = false
			}
		}
		if good && obj != nil {
			g.verified[key] = obj.Ver
		}
	}
	if int64(len(g.entries)) < n {
		fail("leaves-missing", "only %d leaves readable", len(g.entries))
		return false
	}
	if r := g.tree.Root(n); r != sth.Root {
		fail("root-mismatch", "MTH of the stored leaves is %s, checkpoint says %s", r, sth.Root)
	}
	for _, c := range hashes {
		key := c.Path()
		obj, present := st.objs[key]
		if !present {
			fail("hash-tile-missing", "%s", key)
			continue
		}
		if g.verified[key] == obj.Ver {
			continue
		}
		want, wok := g.tree.HashTileBytes(c)
		if !wok || !bytes.Equal(want, obj.Data) {
			fail("hash-tile-bytes", "%s differs from the reference rendering", key)
			continue
		}
		g.verified[key] = obj.Ver
	}
	for _, c := range names {
		key := c.Path()
		obj, present := st.objs[key]
		if !present {
			fail("names-tile-missing", "%s", key)
			continue
		}
		if g.verified[key] == obj.Ver {
			continue
		}
		if err := o.checkNamesTile(g, c, obj); err != nil {
			fail("names-tile", "%s: %v", key, err)
			continue
		}
		g.verified[key] = obj.Ver
	}
	// issuers
	for i := int64(0); i < n; i++ {
		for _, fp := range g.entries[i].Fingerprints {
			key := fmt.Sprintf("issuer/%x", fp)
			obj, present := st.objs[key]
			if !present {
				fail("issuer-missing", "leaf %d references %s", i, key)
				continue
			}
			if g.verified[key] == obj.Ver {
				continue
			}
			if sha256.Sum256(obj.Data) != fp {
				fail("issuer-bytes", "%s does not hash to its name", key)
				continue
			}
			g.verified[key] = obj.Ver
		}
	}
	return ok
}

// checkLeafProvenance: a stored leaf must be an admitted submission.
func (o *oracle) checkLeafProvenance(st *Store, e *ref.Entry, fail func(string, string, ...any)) {
	pe := &ctlog.PendingLogEntry{Certificate: e.Cert, IsPrecert: e.IsPrecert, IssuerKeyHash: e.IssuerKeyHash}
	k := independentCacheKey(pe)
	it := o.itemsByKey[k]
	if it == nil {
		fail("leaf-not-submitted", "leaf %d is not an entry of the workload", e.Index)
		return
	}
	if !it.acceptsPreCert(e.PreCert) {
		fail("leaf-precert", "leaf %d carries a different pre_certificate than submitted", e.Index)
	}
	// the entry may have been submitted with several valid chains: the leaf
	// carries the fingerprints of one of them
	for _, alt := range it.altIssuers {
		match := len(alt) == len(e.Fingerprints)
		for i := 0; match && i < len(alt); i++ {
			match = sha256.Sum256(alt[i]) == e.Fingerprints[i]
		}
		if match {
			return
		}
	}
	if len(it.Entry.Issuers) != len(e.Fingerprints) {
		fail("leaf-fingerprints", "leaf %d has %d fingerprints, submitted chain has %d issuers", e.Index, len(e.Fingerprints), len(it.Entry.Issuers))
		return
	}
	for i, iss := range it.Entry.Issuers {
		if sha256.Sum256(iss) != e.Fingerprints[i] {
			fail("leaf-fingerprints", "leaf %d fingerprint %d is not the submitted issuer", e.Index, i)
		}
	}
}

type namesLine struct {
	Timestamp int64
	Subject   struct {
		Country, Organization, OrganizationalUnit []string
		Locality, Province                        []string
		StreetAddress, PostalCode                 []string
		CommonName                                string
	}
	DNS []string
	IP  []string
}

func (o *oracle) checkNamesTile(g *groundTruth, c ref.TileCoord, obj *Obj) error {
	raw, err := gunzip(obj.Data)
	if err != nil {
		return fmt.Errorf("not gzip: %v", err)
	}
	var lines [][]byte
	if len(raw) > 0 {
		if raw[len(raw)-1] != '\n' {
			return errors.New("no final newline")
		}
		lines = bytes.Split(raw[:len(raw)-1], []byte{'\n'})
	}
	li := 0
	for i := 0; i < c.W; i++ {
		e := g.entries[c.N*ref.TileWidth+int64(i)]
		der := e.Cert
		if e.IsPrecert {
			der = e.PreCert
		}
		cert, err := x509.ParseCertificate(der)
		if err != nil {
			// Lines for unparseable entries are not prescribed: accept either no
			// line or a line that is valid JSON with the right timestamp.
			continue
		}
		if li >= len(lines) {
			return fmt.Errorf("no line for parseable leaf %d", e.Index)
		}
		var nl namesLine
		dec := json.NewDecoder(bytes.NewReader(lines[li]))
		dec.DisallowUnknownFields()
		if err := dec.Decode(&nl); err != nil {
			return fmt.Errorf("line %d: %v", li, err)
		}
		li++
		if nl.Timestamp != e.Timestamp {
			return fmt.Errorf("leaf %d: timestamp %d, leaf has %d", e.Index, nl.Timestamp, e.Timestamp)
		}
		if nl.Subject.CommonName != cert.Subject.CommonName || !eqStrings(nl.DNS, cert.DNSNames) ||
			!eqStrings(nl.Subject.Organization, cert.Subject.Organization) || !eqStrings(nl.Subject.Country, cert.Subject.Country) {
			return fmt.Errorf("leaf %d: names differ from an independent parse", e.Index)
		}
		var ips []string
		for _, ip := range cert.IPAddresses {
			ips = append(ips, ip.String())
		}
		if !eqStrings(nl.IP, ips) {
			return fmt.Errorf("leaf %d: IPs differ from an independent parse", e.Index)
		}
	}
	if li != len(lines) {
		return fmt.Errorf("%d lines for %d parseable entries", len(lines), li)
	}
	return nil
}

func eqStrings(a, b []string) bool {
	if len(a) != len(b) {
		return false
	}
	for i := range a {
		if a[i] != b[i] {
			return false
		}
	}
	return true
}

// ---------------------------------------------------------------------------
// Acknowledgements (C02)

// checkAcks runs at quiescence on the submissions completed in the last step.
func (o *oracle) checkAcks() {
	w := o.w
	w.notesMu.Lock()
	acks := o.acks
	o.acks = nil
	w.notesMu.Unlock()
	sort.Slice(acks, func(i, j int) bool { return acks[i].ID < acks[j].ID })
	for _, s := range acks {
		in := w.insts[s.Inst]
		if in.inc != s.Inc || in.dead {
			continue // emitted by a dead incarnation: does not exist
		}
		if s.Returned != 1 {
			o.v("C17", "multiple-outcomes", "sub %d got %d outcomes", s.ID, s.Returned)
		}
		o.checkOutcome(in, s)
		o.checkChainOutcome(in, s)
		if s.Err != nil && strings.Contains(s.Err.Error(), "time did not progress") {
			// the round was refused by the time guard: that is a stop, not a failed round
			in.timeGuardInc = s.Inc
			in.timeGuardHit = true
		}
		if s.Err != nil {
			if s.Item.ID >= 0 && !contains(w.failedItems, s.Item.ID) {
				w.failedItems = append(w.failedItems, s.Item.ID)
			}
			continue
		}
		for i, id := range w.failedItems {
			if id == s.Item.ID {
				w.failedItems = append(w.failedItems[:i], w.failedItems[i+1:]...)
				break
			}
		}
		o.okAcks = append(o.okAcks, s)
		o.checkAckNow(in, s, "ack")
		o.checkIssuersAtAck(in, s)
		// C07: one (index, timestamp) per entry within a cache epoch
		k := fmt.Sprintf("%d/%d/%x", s.Inst, s.cacheEpoch, s.Item.Key)
		if prev, ok := o.ackSeen[k]; ok && prev != [2]int64{s.Index, s.Time} {
			o.v("C07", "ack-differs", "item %d acknowledged as idx=%d ts=%d and as idx=%d ts=%d within one cache epoch", s.Item.ID, prev[0], prev[1], s.Index, s.Time)
		}
		o.ackSeen[k] = [2]int64{s.Index, s.Time}
		// ... and after the recompute-cache tool rebuilt the cache from storage,
		// every entry it read is answered with an occurrence it read
		if in.recomputed != nil && in.recomputedEpoch == s.cacheEpoch {
			if want, ok := in.recomputed[s.Item.Key]; ok {
				w.sim.Probe("recompute.dedup.checked")
				found := false
				for _, x := range want {
					found = found || x == [2]int64{s.Index, s.Time}
				}
				if !found {
					o.v("C07", "recomputed-cache-miss", "item %d is leaf %v (index, timestamp) in the tiles recompute-cache rebuilt the cache from, but its resubmission was acknowledged as idx=%d ts=%d", s.Item.ID, want, s.Index, s.Time)
				}
			}
		}
	}
}

// checkAckNow is the C02 oracle for one acknowledgement against durable state.
func (o *oracle) checkAckNow(in *Instance, s *Submission, when string) bool {
	if o.tampered {
		return true
	}
	st := in.store
	pub := o.lastPublished(st)
	if pub == nil || pub.STH == nil {
		o.v("C02", "ack-unpublished", "sub %d acknowledged (idx %d) with no verifiable published checkpoint", s.ID, s.Index)
		return false
	}
	cur, _ := st.get("checkpoint")
	if !bytes.Equal(cur, pub.Bytes) {
		// the checkpoint object was tampered with; use what is there
		sth, err := o.verifyCkpt(in, cur)
		if err != nil {
			o.v("C02", "ack-unpublished", "sub %d acknowledged while the checkpoint object does not verify: %v", s.ID, err)
			return false
		}
		pub = &CkptEvent{STH: sth}
	}
	if s.Index >= pub.STH.Size {
		if pub.StaleLock {
			o.w.sim.ViolateSig("C02", "ack-not-covered", "stale-instance-publish",
				"sub %d idx %d not covered by the published checkpoint of size %d (%s)", s.ID, s.Index, pub.STH.Size, when)
			return false
		}
		o.v("C02", "ack-not-covered", "sub %d acknowledged with index %d while the published checkpoint has size %d (%s)", s.ID, s.Index, pub.STH.Size, when)
		return false
	}
	e, err := o.leafAt(st, pub.STH.Size, s.Index)
	if err != nil {
		o.v("C02", "ack-leaf-unreadable", "sub %d idx %d (%s): %v", s.ID, s.Index, when, err)
		return false
	}
	want := s.Item.Entry
	if e.Index != s.Index || e.Timestamp != s.Time || e.IsPrecert != want.IsPrecert || !bytes.Equal(e.Cert, want.Certificate) ||
		e.IssuerKeyHash != want.IssuerKeyHash || !(bytes.Equal(e.PreCert, want.PreCertificate) || o.itemsByKey[s.Item.Key] != nil && o.itemsByKey[s.Item.Key].acceptsPreCert(e.PreCert)) {
		o.v("C02", "ack-wrong-leaf", "sub %d (item %d) acknowledged idx=%d ts=%d but the stored leaf is idx=%d ts=%d precert=%v certlen=%d (%s)",
			s.ID, s.Item.ID, s.Index, s.Time, e.Index, e.Timestamp, e.IsPrecert, len(e.Cert), when)
		if s.Source == "pool" || s.Source == "cache" {
			// an acknowledgement served by deduplication that names an index which does not hold the entry (C07)
			o.v("C07", "dedup-ack-wrong-leaf", "sub %d (item %d) was answered from %s with idx=%d ts=%d, but that leaf is another entry (%s)", s.ID, s.Item.ID, s.Source, s.Index, s.Time, when)
		}
		return false
	}
	if s.gotEntry != nil {
		// the LogEntry handed to the submitter must itself be that leaf
		g := s.gotEntry
		if g.LeafIndex != e.Index || g.Timestamp != e.Timestamp || !bytes.Equal(g.Certificate, e.Cert) || g.IsPrecert != e.IsPrecert {
			o.v("C02", "ack-entry-mismatch", "sub %d: returned LogEntry differs from the stored leaf", s.ID)
		}
	}
	if s.HTTP && s.sctRsp != nil {
		o.checkSCT(in, s, e)
	}
	return true
}

// finalChecks runs after the epilogue.
func (o *oracle) finalChecks() {
	w := o.w
	// C02 / C03: every acknowledgement still holds.
	for _, s := range o.okAcks {
		o.checkAckNow(w.insts[s.Inst], s, "final")
	}
	// C01(c): every checkpoint ever committed or published is a prefix.
	for id, hist := range w.lock.hist {
		_ = id
		for _, ev := range hist {
			o.checkPrefix(ev)
		}
	}
	for _, st := range w.stores {
		for _, ev := range st.pubHist {
			o.checkPrefix(ev)
		}
	}
	o.checkLeafCounts()
	o.checkTamperHistory()
}

func (o *oracle) checkPrefix(ev *CkptEvent) {
	if ev.STH == nil {
		return
	}
	in := o.w.insts[ev.Inst]
	g := o.truth(in.store)
	if ev.STH.Size > int64(len(g.entries)) {
		o.w.sim.Probe("prefix.unchecked")
		return
	}
	if r := g.tree.Root(ev.STH.Size); r != ev.STH.Root {
		o.v("C01", "not-a-prefix", "%s checkpoint of step %d (size %d, root %s) is not the root of the first %d stored leaves (%s)",
			ev.Where, ev.Step, ev.STH.Size, ev.STH.Root, ev.STH.Size, r)
	}
	o.w.sim.Probe("prefix.checked")
}

// checkLeafCounts: each sequenced leaf corresponds to one admission (C07).
func (o *oracle) checkLeafCounts() {
	for _, g := range o.gt {
		cnt := map[[32]byte]int{}
		for _, e := range g.entries {
			pe := &ctlog.PendingLogEntry{Certificate: e.Cert, IsPrecert: e.IsPrecert, IssuerKeyHash: e.IssuerKeyHash}
			cnt[independentCacheKey(pe)]++
		}
		keys := make([][32]byte, 0, len(cnt))
		for k := range cnt {
			keys = append(keys, k)
		}
		sort.Slice(keys, func(i, j int) bool { return bytes.Compare(keys[i][:], keys[j][:]) < 0 })
		for _, k := range keys {
			if cnt[k] > o.admitted[k] {
				it := o.itemsByKey[k]
				id := -1
				if it != nil {
					id = it.ID
				}
				o.v("C07", "more-leaves-than-admissions", "item %d has %d leaves but was admitted %d times", id, cnt[k], o.admitted[k])
				if it != nil && it.Spec != nil && o.admitted[k] == 0 {
					o.v("C09", "rejected-chain-logged", "item %d (defect %q) was never accepted but has %d leaves", id, it.Spec.Defect, cnt[k])
				}
			}
		}
	}
}
