package seq

import (
	"context"
	"errors"
	"testing/synctest"
	"time"

	"filippo.io/sunlight/internal/ctlog"
	"filippo.io/sunlight/internal/verifsim/core"
)

// evictBurst is the unnarrowed eviction check of C17. During a run the
// scheduler narrows the low-priority map to the victim it chose, because Go's
// map iteration order would otherwise decide who is evicted and the run would
// not replay; under that narrowing a change that evicts *every* low-priority
// entry, or none, looks like one eviction. Here, after the run proper, the pool
// of the running instance is filled with k >= 2 low-priority and size-k
// high-priority fresh entries, one more high-priority entry is submitted with
// the map untouched, and only counts are looked at, which do not depend on who
// the victim was: exactly one waiter is refused with the eviction error, the
// pool still holds size entries of which k-1 are low priority, and after the
// next round everybody else is sequenced at distinct indexes.
func (w *World) evictBurst(in *Instance) {
	if in.state != stRunning || in.log == nil || in.pool < 2 || w.prof.HTTP || w.unfinished(in) > 0 {
		return
	}
	sim := w.sim
	r := core.NewRand(core.Mix(sim.Seed, 0xb0257))
	// which entry is evicted is Go's map iteration order: nothing below may log
	// anything that depends on it (roots, indexes)
	sim.Mute(true)
	defer sim.Mute(false)
	w.noYield = true
	defer func() { w.noYield = false }()
	if pend, _ := in.log.VerifPool(); pend != 0 {
		// wait for a fresh pool
		time.Sleep(in.untilNextTick())
		synctest.Wait()
		w.quiesce()
		if pend, _ := in.log.VerifPool(); pend != 0 || in.state != stRunning {
			return
		}
	}
	size := in.pool
	k := 2 + r.Intn(min(size, 5)-1) // 2..min(size,5) low-priority entries
	type waiter struct {
		low  bool
		f    ctlog.VerifWaitFunc
		done bool
		idx  int64
		err  error
	}
	var ws []*waiter
	add := func(low bool) *waiter {
		it := w.makeItem(910000+len(ws), 3)
		it.ID = -2000000 - len(ws)
		w.orc.itemsByKey[it.Key] = it
		w.smu.Lock()
		w.orc.admitted[it.Key]++
		w.smu.Unlock()
		e := *it.Entry
		f, src := in.log.VerifAddLeafToPool(context.Background(), &e, low)
		wt := &waiter{low: low, f: f}
		if src != "sequencer" {
			wt.done, wt.err = true, errors.New("not admitted: "+src)
		}
		ws = append(ws, wt)
		return wt
	}
	// seeded interleaving of the k low and size-k high entries
	lows := k
	highs := size - k
	for lows+highs > 0 {
		if lows > 0 && (highs == 0 || r.Intn(lows+highs) < lows) {
			add(true)
			lows--
		} else {
			add(false)
			highs--
		}
	}
	for _, wt := range ws {
		if wt.done {
			w.orc.v("C17", "burst-admission", "an entry was refused (%v) while the pool of size %d was not full", wt.err, size)
			return
		}
	}
	extra := add(false)
	pend, lowNow := in.log.VerifPool()
	if extra.done {
		w.orc.v("C17", "burst-admission", "a high-priority entry was refused (%v) at a full pool with %d low-priority entries pending", extra.err, k)
		return
	}
	if pend != size || len(lowNow) != k-1 {
		w.orc.v("C17", "burst-eviction-count", "after a high-priority arrival at a full pool (size %d, %d low-priority pending) the pool holds %d entries of which %d are low priority; want %d and %d", size, k, pend, len(lowNow), size, k-1)
	}
	for _, wt := range ws {
		wt := wt
		go func() {
			le, err := wt.f(context.Background())
			if err == nil {
				wt.idx = le.LeafIndex
			}
			wt.err = err
			wt.done = true
		}()
	}
	for i := 0; i < 400; i++ {
		synctest.Wait()
		w.quiesce()
		all := true
		for _, wt := range ws {
			all = all && wt.done
		}
		if all {
			break
		}
		if ops := w.liveParked(); len(ops) > 0 {
			op := ops[0]
			pp := op.Payload.(*pendingOp)
			if op.Kind != "cache" && op.Kind != "yield" {
				w.apply(w.insts[op.Inst], op.Inc, op.Kind, op.Key, pp, true)
			}
			sim.Release(op, core.OutOK)
			continue
		}
		if in.state != stRunning {
			break
		}
		time.Sleep(in.untilNextTick())
	}
	evicted, ok, other, pending := 0, 0, 0, 0
	seen := map[int64]bool{}
	for _, wt := range ws {
		switch {
		case !wt.done:
			pending++
		case wt.err == nil:
			ok++
			if seen[wt.idx] {
				w.orc.v("C17", "burst-index", "two entries of the burst were sequenced at index %d", wt.idx)
			}
			seen[wt.idx] = true
		case errors.Is(wt.err, ctlog.VerifErrEvicted):
			evicted++
			if !wt.low {
				w.orc.v("C17", "evicted-high-priority", "a high-priority entry of the burst was evicted")
			}
		default:
			other++
		}
	}
	sim.Probe("burst.done")
	sim.MuteLogf("burst size=%d low=%d -> evicted=%d ok=%d other=%d pending=%d", size, k, evicted, ok, other, pending)
	if evicted != 1 {
		w.orc.v("C17", "burst-eviction-count", "one high-priority arrival at a full pool (size %d, %d low-priority pending) evicted %d entries", size, k, evicted)
	}
	if in.state == stRunning && (pending > 0 || other > 0 || ok != size) {
		w.orc.v("C17", "burst-outcome", "after the round that followed the burst: %d sequenced (want %d), %d failed otherwise, %d still waiting", ok, size, other, pending)
	}
}
