package seq

import (
	"bytes"
	"context"
	"crypto/sha256"
	"errors"
	"fmt"
	"path/filepath"

	"filippo.io/sunlight/internal/ctlog"
	"filippo.io/sunlight/internal/verifsim/core"
	"filippo.io/sunlight/internal/verifsim/corpus"
)

// refusalProbes (C06): from the durable state at the end of a run, build
// start-up states that must be refused, and the unmodified twin that must load.
func (w *World) refusalProbes(primary *Instance) {
	id, _ := ctlog.VerifLogID(primary.key)
	hist := w.lock.hist[id]
	if len(hist) == 0 {
		return
	}
	base := primary.store
	curLock := w.lock.vals[id]
	last := hist[len(hist)-1]
	if last.STH == nil {
		return
	}
	type probe struct {
		name   string
		mutate func(st *Store, lk *LockStore, cfg *ctlog.Config) bool // false: not applicable
		create bool
	}
	sign := func(cfg *ctlog.Config, n int64, h [32]byte, t int64) []byte {
		b, err := ctlog.VerifSignTreeHead(cfg, n, h, t)
		if err != nil {
			panic(err)
		}
		return b
	}
	probes := []probe{
		{name: "twin", mutate: func(st *Store, lk *LockStore, cfg *ctlog.Config) bool { return true }},
		{name: "lock-behind-storage", mutate: func(st *Store, lk *LockStore, cfg *ctlog.Config) bool {
			for i := len(hist) - 1; i >= 0; i-- {
				if hist[i].STH != nil && hist[i].STH.Size < last.STH.Size {
					lk.vals[id] = bytes.Clone(hist[i].Bytes)
					return true
				}
			}
			return false
		}},
		{name: "same-size-different-root", mutate: func(st *Store, lk *LockStore, cfg *ctlog.Config) bool {
			if last.STH.Size == 0 {
				return false
			}
			h := sha256.Sum256([]byte("another history"))
			st.put("checkpoint", sign(cfg, last.STH.Size, h, last.STH.Timestamp), nil)
			return true
		}},
		{name: "foreign-name-published", mutate: func(st *Store, lk *LockStore, cfg *ctlog.Config) bool {
			c2 := *cfg
			c2.Name = "other.example/log"
			st.put("checkpoint", sign(&c2, last.STH.Size, last.STH.Root, last.STH.Timestamp), nil)
			return true
		}},
		{name: "foreign-key-published", mutate: func(st *Store, lk *LockStore, cfg *ctlog.Config) bool {
			c2 := *cfg
			c2.Key = corpus.Key("another log key")
			st.put("checkpoint", sign(&c2, last.STH.Size, last.STH.Root, last.STH.Timestamp), nil)
			return true
		}},
		{name: "foreign-name-lock", mutate: func(st *Store, lk *LockStore, cfg *ctlog.Config) bool {
			c2 := *cfg
			c2.Name = "other.example/log"
			lk.vals[id] = sign(&c2, last.STH.Size, last.STH.Root, last.STH.Timestamp)
			return true
		}},
		{name: "missing-published-checkpoint", mutate: func(st *Store, lk *LockStore, cfg *ctlog.Config) bool {
			delete(st.objs, "checkpoint")
			return true
		}},
		{name: "lock-ahead-without-staging", mutate: func(st *Store, lk *LockStore, cfg *ctlog.Config) bool {
			h := sha256.Sum256([]byte("a tree nobody staged"))
			lk.vals[id] = sign(cfg, last.STH.Size+1, h, last.STH.Timestamp+1)
			return true
		}},
		{name: "checkpoint-from-the-future", mutate: func(st *Store, lk *LockStore, cfg *ctlog.Config) bool {
			b := sign(cfg, last.STH.Size, last.STH.Root, w.nowMilli()+3600_000)
			lk.vals[id] = b
			st.put("checkpoint", b, nil)
			return true
		}},
		{name: "create-over-existing-lock", create: true, mutate: func(st *Store, lk *LockStore, cfg *ctlog.Config) bool { return true }},
		{name: "create-over-existing-storage", create: true, mutate: func(st *Store, lk *LockStore, cfg *ctlog.Config) bool {
			delete(lk.vals, id)
			return true
		}},
	}
	for pi, pr := range probes {
		pw := &World{sim: core.NewSim(0), prof: w.prof, auto: true, lock: newLockStore(), tmp: w.tmp}
		pw.orc = newOracle(pw)
		pw.sim.KeepLog(false)
		st := newStore(0)
		for k, o := range base.objs {
			st.objs[k] = &Obj{Data: o.Data, Opts: o.Opts, Ver: o.Ver}
		}
		st.ver = base.ver
		pw.stores = []*Store{st}
		pw.lock.vals[id] = bytes.Clone(curLock)
		in := &Instance{w: pw, idx: 0, name: primary.name, key: primary.key, wkey: primary.wkey, store: st,
			cache: filepath.Join(w.tmp, fmt.Sprintf("probe-%d.db", pi)), pool: primary.pool, period: primary.period}
		pw.insts = []*Instance{in}
		cfg := in.config(0)
		if !pr.mutate(st, pw.lock, cfg) {
			continue
		}
		beforeLock := bytes.Clone(pw.lock.vals[id])
		beforeCk, _ := st.get("checkpoint")
		beforeCk = bytes.Clone(beforeCk)
		if pr.create {
			err := ctlog.CreateLog(context.Background(), cfg)
			if err == nil {
				w.orc.v("C06", "create-over-existing", "probe %s: CreateLog succeeded over an existing log", pr.name)
			}
			afterCk, _ := st.get("checkpoint")
			if !bytes.Equal(pw.lock.vals[id], beforeLock) || !bytes.Equal(afterCk, beforeCk) {
				w.orc.v("C06", "create-over-existing", "probe %s: CreateLog modified an existing log", pr.name)
			}
			if pr.name == "create-over-existing-lock" && !errors.Is(err, ctlog.ErrLogExists) {
				w.orc.v("C06", "create-over-existing", "probe %s: CreateLog returned %v, want ErrLogExists", pr.name, err)
			}
			w.sim.Probe("probe." + pr.name)
			continue
		}
		l, err := ctlog.LoadLog(context.Background(), cfg)
		if l != nil {
			l.CloseCache()
		}
		if pr.name == "twin" {
			if err != nil {
				w.orc.v("C06", "twin-refused", "the unmodified final state does not load: %v", err)
				return
			}
		} else if err == nil {
			w.orc.v("C06", "startup-not-refused", "probe %s: LoadLog accepted the start-up state", pr.name)
		}
		w.sim.Probe("probe." + pr.name)
	}
}
