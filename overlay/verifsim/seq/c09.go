package seq

import (
	"bytes"
	"context"
	"crypto/sha256"
	stdx509 "crypto/x509"
	"encoding/base64"
	"encoding/json"
	"encoding/pem"
	"fmt"
	"net/http/httptest"
	"sort"
	"strings"
	"testing/synctest"
	"time"

	"filippo.io/sunlight/internal/ctlog"
	"filippo.io/sunlight/internal/verifsim/core"
	"filippo.io/sunlight/internal/verifsim/corpus"
	ct "github.com/google/certificate-transparency-go"
	ctx509 "github.com/google/certificate-transparency-go/x509"
)

// chainSpec describes how a submitted chain was constructed; acceptance is
// predicted from the construction, not by re-running the validator.
type chainSpec struct {
	Issuer      string // inter0 | inter1 | root | inter2 | preissuer
	Precert     bool
	IncludeRoot bool
	Defect      string
	PreChainEP  bool     // sent to add-pre-chain
	Root        string   // "root1" or "root2": the root the chain leads to
	Full        [][]byte // the complete path, leaf first, root last
	WellFormed  bool
	NotAfter    time.Time
}

func pemOf(ders ...[]byte) []byte {
	var b bytes.Buffer
	for _, d := range ders {
		pem.Encode(&b, &pem.Block{Type: "CERTIFICATE", Bytes: d})
	}
	return b.Bytes()
}

// makeChainItem builds a chain by construction.
func (w *World) makeChainItem(k int, r *core.Rand) *Item {
	c := corpus.Get()
	p := w.prof
	sp := &chainSpec{WellFormed: true}
	it := &Item{ID: k, Spec: sp, corpusIdx: 5000 + k}
	start, limit := p.notAfterStart(), p.notAfterLimit()
	o := corpus.LeafOpts{NotAfter: start.Add(time.Duration(1+r.Intn(1000)) * time.Hour)}
	if !o.NotAfter.Before(limit) {
		o.NotAfter = limit.Add(-time.Hour)
	}
	sp.Issuer = []string{"inter0", "inter0", "inter1", "root", "inter2", "preissuer"}[r.Intn(6)]
	sp.Precert = sp.Issuer == "preissuer" || r.Chance(1, 3)
	sp.IncludeRoot = r.Chance(1, 2)
	sp.PreChainEP = sp.Precert
	if r.Chance(1, 2) {
		sp.Defect = []string{"missing-intermediate", "wrong-order", "na-before-start", "na-at-start", "na-limit-minus-1s", "na-at-limit", "eku-client",
			"eku-none", "wrong-endpoint", "malformed-json", "malformed-b64", "malformed-der", "empty-chain", "extra-unrelated-cert",
			"poison-noncritical", "poison-badvalue"}[r.Intn(16)]
	}
	switch sp.Defect {
	case "na-before-start":
		o.NotAfter = start.Add(-time.Second)
	case "na-at-start":
		o.NotAfter = start
	case "na-limit-minus-1s":
		o.NotAfter = limit.Add(-time.Second)
	case "na-at-limit":
		o.NotAfter = limit
	case "eku-client":
		o.EKU = []stdx509.ExtKeyUsage{stdx509.ExtKeyUsageClientAuth}
	case "eku-none":
		o.NoEKU = true
	case "wrong-endpoint":
		sp.PreChainEP = !sp.Precert
	case "poison-noncritical", "poison-badvalue":
		// a malformed CT poison extension: neither a certificate nor a
		// precertificate, refused at both endpoints
		if sp.Issuer == "preissuer" {
			sp.Issuer = "inter0"
		}
		sp.Precert = false
		sp.PreChainEP = r.Chance(1, 2)
		o.BadPoison = 1
		if sp.Defect == "poison-badvalue" {
			o.BadPoison = 2
		}
	}
	o.Precert = sp.Precert
	if (r.Chance(1, 6) || (p.Prop == "C17" && r.Chance(1, 2))) && !sp.Precert {
		o.WithSCT = true // low priority
	}
	var path [][]byte
	switch sp.Issuer {
	case "inter0":
		o.Issuer = c.Inter[0]
		path = [][]byte{c.Inter[0].DER, c.Root.DER}
		sp.Root = "root1"
	case "inter1":
		o.Issuer = c.Inter[1]
		path = [][]byte{c.Inter[1].DER, c.Inter[0].DER, c.Root.DER}
		sp.Root = "root1"
	case "root":
		o.Issuer = c.Root
		path = [][]byte{c.Root.DER}
		sp.Root = "root1"
	case "inter2":
		o.Issuer = c.Inter2
		path = [][]byte{c.Inter2.DER, c.Root2.DER}
		sp.Root = "root2"
	case "preissuer":
		o.Issuer = c.PreIssuer
		path = [][]byte{c.PreIssuer.DER, c.Inter[0].DER, c.Root.DER}
		sp.Root = "root1"
	}
	sp.NotAfter = o.NotAfter
	leaf := c.Leaf(it.corpusIdx, o)
	sp.Full = append([][]byte{leaf}, path...)
	chain := append([][]byte{leaf}, path...)
	if !sp.IncludeRoot && len(chain) > 1 {
		chain = chain[:len(chain)-1]
	}
	switch sp.Defect {
	case "missing-intermediate":
		if len(chain) >= 3 {
			chain = append(chain[:1:1], chain[2:]...)
		} else if len(chain) == 2 && len(sp.Full) >= 3 {
			chain = chain[:1]
		} else {
			sp.Defect = ""
		}
	case "wrong-order":
		if len(chain) >= 3 {
			chain[1], chain[2] = chain[2], chain[1]
		} else {
			sp.Defect = ""
		}
	case "extra-unrelated-cert":
		chain = append(chain, c.Inter2.DER)
	case "empty-chain":
		chain = nil
	}
	it.Chain = chain
	it.PreChain = sp.PreChainEP
	// the entry an independent RFC 6962 implementation derives from the full path
	it.Entry = expectedEntry(sp)
	it.Key = independentCacheKey(it.Entry)
	it.Parse = true
	switch sp.Defect {
	case "malformed-json":
		it.Body = []byte(`{"chain": [`)
		sp.WellFormed = false
	case "malformed-b64":
		it.Body = []byte(`{"chain": ["!!!not base64!!!"]}`)
		sp.WellFormed = false
	case "malformed-der":
		it.Body, _ = json.Marshal(map[string]any{"chain": [][]byte{[]byte("not a certificate")}})
		sp.WellFormed = false
	}
	return it
}

// expectedEntry derives the log entry from the full path with ct-go's
// independent leaf construction.
func expectedEntry(sp *chainSpec) *ctlog.PendingLogEntry {
	var certs []*ctx509.Certificate
	for _, d := range sp.Full {
		cc, err := ctx509.ParseCertificate(d)
		if cc == nil {
			panic(err)
		}
		certs = append(certs, cc)
	}
	e := &ctlog.PendingLogEntry{}
	for _, d := range sp.Full[1:] {
		e.Issuers = append(e.Issuers, d)
	}
	if !sp.Precert {
		leaf, err := ct.MerkleTreeLeafFromChain(certs, ct.X509LogEntryType, 0)
		if err != nil {
			panic(err)
		}
		e.Certificate = leaf.TimestampedEntry.X509Entry.Data
		return e
	}
	leaf, err := ct.MerkleTreeLeafFromChain(certs, ct.PrecertLogEntryType, 0)
	if err != nil {
		panic(err)
	}
	e.IsPrecert = true
	e.Certificate = leaf.TimestampedEntry.PrecertEntry.TBSCertificate
	e.IssuerKeyHash = leaf.TimestampedEntry.PrecertEntry.IssuerKeyHash
	e.PreCertificate = sp.Full[0]
	return e
}

// expectAccept predicts acceptance from the construction and the roots the
// instance currently trusts.
func (w *World) expectAccept(in *Instance, it *Item) bool {
	sp := it.Spec
	if !sp.WellFormed {
		return false
	}
	switch sp.Defect {
	case "missing-intermediate", "wrong-order", "eku-client", "eku-none", "wrong-endpoint", "empty-chain", "extra-unrelated-cert",
		"poison-noncritical", "poison-badvalue":
		return false
	}
	// the shard window [start, limit), from the construction parameter
	if sp.NotAfter.Before(w.prof.notAfterStart()) || !sp.NotAfter.Before(w.prof.notAfterLimit()) {
		return false
	}
	return in.rootsMem[sp.Root]
}

// ---------------------------------------------------------------------------
// roots

func (w *World) rootSetPEM(set []string) []byte {
	c := corpus.Get()
	var ders [][]byte
	for _, s := range set {
		if s == "root1" {
			ders = append(ders, c.Root.DER)
		} else {
			ders = append(ders, c.Root2.DER)
		}
	}
	return pemOf(ders...)
}

func parseRootSet(pemBytes []byte) map[string]bool {
	c := corpus.Get()
	m := map[string]bool{}
	rest := pemBytes
	for {
		var b *pem.Block
		b, rest = pem.Decode(rest)
		if b == nil {
			break
		}
		switch {
		case bytes.Equal(b.Bytes, c.Root.DER):
			m["root1"] = true
		case bytes.Equal(b.Bytes, c.Root2.DER):
			m["root2"] = true
		default:
			m[fmt.Sprintf("%x", sha256.Sum256(b.Bytes))] = true
		}
	}
	return m
}

// setRoots runs SetRootsFromPEM as a task; the upload of _roots.pem happens
// under rootsMu, hence takes its outcome from the plan.
func (w *World) setRoots(in *Instance, set []string, plan []int) {
	w.plan, w.planPos = plan, 0
	l := in.log
	inc := in.inc
	pemBytes := w.rootSetPEM(set)
	// the caller reuses one buffer for successive reloads when the length allows
	// (what reading a file into a fixed buffer does): the log must not keep a
	// reference into it
	w.smu.Lock()
	idle := w.rootsTasks == 0
	w.smu.Unlock()
	if !idle {
		// a reload is still running with the shared buffer as its argument: a
		// caller may only reuse a buffer after the call that got it has returned
		pemBytes = bytes.Clone(pemBytes)
	} else if len(in.rootsBuf) == len(pemBytes) {
		copy(in.rootsBuf, pemBytes)
		pemBytes = in.rootsBuf
		w.sim.Probe("roots.buffer-reused")
	} else {
		in.rootsBuf = bytes.Clone(pemBytes)
		pemBytes = in.rootsBuf
	}
	want := parseRootSet(pemBytes)
	before := map[string]bool{}
	for k, v := range in.rootsMem {
		before[k] = v
	}
	w.smu.Lock()
	w.rootsTasks++
	w.smu.Unlock()
	go func() {
		err := l.SetRootsFromPEM(context.Background(), pemBytes)
		w.smu.Lock()
		w.rootsTasks--
		w.smu.Unlock()
		if in.inc != inc || in.dead {
			select {}
		}
		if err == nil {
			in.rootsMem = want
		}
		w.note("setroots i%d.%d %v -> err=%v", in.idx, inc, set, err != nil)
	}()
	synctest.Wait()
	w.sim.Probe("roots.set")
}

// checkGetRoots: get-roots reports exactly the accepted roots.
func (w *World) checkGetRoots(in *Instance) {
	rec := httptest.NewRecorder()
	in.handler.ServeHTTP(rec, httptest.NewRequest("GET", "/ct/v1/get-roots", nil))
	var res struct {
		Certificates [][]byte `json:"certificates"`
	}
	if rec.Code != 200 || json.Unmarshal(rec.Body.Bytes(), &res) != nil {
		w.orc.v("C09", "get-roots", "get-roots answered %d %q", rec.Code, clip(rec.Body.String()))
		return
	}
	got := parseRootSet(pemOf(res.Certificates...))
	var g, m []string
	for k := range got {
		g = append(g, k)
	}
	for k, v := range in.rootsMem {
		if v {
			m = append(m, k)
		}
	}
	sort.Strings(g)
	sort.Strings(m)
	if strings.Join(g, ",") != strings.Join(m, ",") {
		w.orc.v("C09", "get-roots", "get-roots reports %v, accepted roots are %v", g, m)
	}
	w.sim.Probe("roots.get")
}

// checkRootsAgree: without any injected failure a reload persists and swaps as
// one step, so whenever no reload is in flight the persisted root set is the one
// in memory (what a restart would bring back is what get-roots reports now).
func (w *World) checkRootsAgree() {
	p := w.prof
	if p.RootsW == 0 || p.OpErrW > 0 || p.StallW > 0 || p.CrashW > 0 || p.SlowW > 0 {
		return
	}
	w.smu.Lock()
	n := w.rootsTasks
	w.smu.Unlock()
	if n > 0 {
		return
	}
	for _, in := range w.insts {
		if in.state != stRunning || in.dead || in.log == nil || in.rootsFetchFailed {
			continue
		}
		d, ok := in.store.get("_roots.pem")
		if !ok {
			continue
		}
		persisted := parseRootSet(d)
		var a, b []string
		for k, v := range persisted {
			if v {
				a = append(a, k)
			}
		}
		for k, v := range in.rootsMem {
			if v {
				b = append(b, k)
			}
		}
		sort.Strings(a)
		sort.Strings(b)
		if len(b) > 0 && strings.Join(a, ",") != strings.Join(b, ",") {
			w.orc.v("C09", "roots-memory-storage-diverge", "no reload in flight and no injected failure, yet _roots.pem holds %v while the running log accepts %v: a restart would change get-roots", a, b)
		}
		w.sim.Probe("roots.agree.checked")
	}
}

// afterLoad: the roots after a (re)start are the last persisted ones.
func (w *World) rootsAfterLoad(in *Instance) {
	in.rootsMem = map[string]bool{}
	if in.rootsFetchFailed {
		// LoadLog only warns when it cannot fetch the previously trusted roots and
		// starts with none; cmd/sunlight sets them right afterwards
		return
	}
	if d, ok := in.store.get("_roots.pem"); ok {
		in.rootsMem = parseRootSet(d)
	}
}

// checkChainOutcome is the C09 oracle for a finished HTTP submission.
func (o *oracle) checkChainOutcome(in *Instance, s *Submission) {
	it := s.Item
	if it.Spec == nil || !s.HTTP {
		return
	}
	w := o.w
	want := s.expectAccept
	w.sim.Probe(fmt.Sprintf("chain.%v.%d", want, s.Code/100*100))
	switch {
	case s.Code == 200 && !want:
		o.v("C09", "invalid-chain-accepted", "sub %d: chain built with defect %q (issuer %s, precert %v, root %s trusted=%v) was accepted", s.ID, it.Spec.Defect, it.Spec.Issuer, it.Spec.Precert, it.Spec.Root, s.rootTrusted)
	case s.Code >= 400 && s.Code < 500 && want:
		o.v("C09", "valid-chain-rejected", "sub %d: well-formed chain (issuer %s, precert %v, defect %q) to a trusted root was refused with %d: %s", s.ID, it.Spec.Issuer, it.Spec.Precert, it.Spec.Defect, s.Code, clip(fmt.Sprint(s.Err)))
	case !want && (s.Code < 400 || s.Code >= 500) && s.Code != 200:
		// a rejection must be a client error, unless the log is stopped or a fault hit
		if s.Code != 503 && s.Code != 500 && s.Code != 410 {
			o.v("C09", "rejection-status", "sub %d: invalid chain answered %d", s.ID, s.Code)
		} else if in.state == stRunning && !s.faultedPlan && s.Code == 500 {
			o.v("C09", "rejection-status", "sub %d: invalid chain (defect %q) answered 500 instead of a client error", s.ID, it.Spec.Defect)
		}
	}
	if !want {
		o.rejectedKeys[it.Key] = it
	}
	// every certificate of an accepted chain is a retrievable issuer, also when
	// the entry itself was answered by deduplication
	if s.Code == 200 && len(it.Chain) > 1 && !o.tampered {
		for _, der := range it.Chain[1:] {
			fp := sha256.Sum256(der)
			obj, ok := in.store.objs[fmt.Sprintf("issuer/%x", fp)]
			if !ok || sha256.Sum256(obj.Data) != fp {
				o.v("C09", "issuer-not-retrievable", "sub %d was accepted, but chain certificate %x is not stored as issuer/%x", s.ID, fp[:4], fp)
				break
			}
		}
		w.sim.Probe("chain.issuers.checked")
	}
	// retry-later answers: a rate-limited or evicted submission is answered 503 with Retry-After (C17)
	body := string(s.SCT)
	if s.Code != 200 && (strings.Contains(body, "evicted") || strings.Contains(body, "rate limited")) && s.Code != 503 {
		o.v("C17", "http-status", "sub %d: rate-limited/evicted submission answered %d %q instead of 503", s.ID, s.Code, clip(body))
	}
	if s.Code == 503 {
		o.w.sim.Probe("http.503")
		if s.retryAfter == "" {
			o.v("C17", "http-retry-after", "sub %d: 503 without Retry-After", s.ID)
		}
	}
	if s.Code >= 400 && s.Code < 500 {
		// over HTTP the admission source is not visible: every started submission
		// counts as possibly admitted (see doSubmit) until it is refused
		o.w.smu.Lock()
		o.admitted[it.Key]--
		o.w.smu.Unlock()
	}
}

var _ = base64.StdEncoding
