package seq

import (
	"sync"
	"bytes"
	"context"
	"crypto/ecdsa"
	"crypto/sha256"
	"encoding/json"
	"fmt"
	"io"
	"log/slog"
	"net/http"
	"net/http/httptest"
	"path/filepath"
	"regexp"
	"time"

	"crawshaw.io/sqlite"
	"filippo.io/mldsa"
	"filippo.io/sunlight"
	"filippo.io/sunlight/internal/ctlog"
	"filippo.io/sunlight/internal/verifsim/core"
	"filippo.io/sunlight/internal/verifsim/corpus"
	ct "github.com/google/certificate-transparency-go"
)

type instState int

const (
	stDown instState = iota
	stLoading
	stRunning
	stStopped // sequencer returned (fatal error, stop, sunset)
	stCrashed
	stRefused // LoadLog returned an error
)

func (s instState) String() string {
	return [...]string{"down", "loading", "running", "stopped", "crashed", "refused"}[s]
}

// Instance is one sunlight server process (possibly restarted many times).
type Instance struct {
	w     *World
	idx   int
	name  string
	key   *ecdsa.PrivateKey
	wkey  *mldsa.PrivateKey
	store *Store
	cache string
	pool  int

	inc   int
	state instState
	dead  bool // current incarnation is dead
	crashPending bool

	log     *ctlog.Log
	cfg     *ctlog.Config
	handler http.Handler
	seqStart time.Time
	seqCancel context.CancelFunc
	seqBusy  bool
	seqErr   error
	loadErr  error
	period   time.Duration
	rounds   int
	// acksAfterStop counts submissions acknowledged after the sequencer stopped.
	stopStep int
	stopLockLen int
	logs []*ctlog.Log // every Log ever loaded (to close cache connections)
	justLoaded bool
	cacheEpoch int
	cacheSnap  []byte
	loadStep   int // scheduler step at which the current incarnation started
	tickMoves  int  // w.timeMoves right after the last tick command of this instance
	stopping   bool // cancelled in the middle of a round, sequencer not yet returned
	rootsBuf   []byte // buffer the harness passes to SetRootsFromPEM and reuses
	staged     map[string][]byte // members of the staging bundle the current round built
	timeGuardHit bool
	timeGuardInc int
	// recomputed: after a successful run of the recompute-cache tool, the
	// (index, timestamp) the cache must answer for each entry it read
	recomputed      map[[32]byte][][2]int64
	recomputedEpoch int
	slow       bool
	creator    bool
	rootsMem   map[string]bool
	rootsFetchFailed bool
}

func (in *Instance) config(inc int) *ctlog.Config {
	return &ctlog.Config{
		Name:          in.name,
		Key:           in.key,
		WitnessKey:    in.wkey,
		PoolSize:      in.pool,
		Cache:         in.cache,
		Backend:       &backendH{w: in.w, inst: in, inc: inc, store: in.store},
		Lock:          &lockH{w: in.w, inst: in, inc: inc},
		Log:           slog.New(slog.NewTextHandler(io.Discard, &slog.HandlerOptions{Level: slog.LevelError + 4})),
		NotAfterStart: in.w.prof.notAfterStart(),
		NotAfterLimit: in.w.prof.notAfterLimit(),
	}
}

// startLoad begins a new incarnation: LoadLog as a task, then the sequencer.
func (w *World) startLoad(in *Instance) {
	in.inc++
	inc := in.inc
	in.dead = false
	in.crashPending = false
	in.state = stLoading
	in.stopping = false
	in.loadStep = w.sim.Step
	in.log = nil
	in.seqErr, in.loadErr = nil, nil
	in.rootsFetchFailed = false
	cfg := in.config(inc)
	in.cfg = cfg
	w.sim.Logf("load i%d.%d", in.idx, inc)
	go func() {
		// a panic of the code under test is a crash of that process
		defer func() {
			if r := recover(); r != nil {
				if in.inc != inc || in.dead {
					select {}
				}
				w.note("panic i%d.%d: %s", in.idx, inc, clip(fmt.Sprint(r)))
				w.smu.Lock()
				w.sim.Probe("crash.panic")
				w.smu.Unlock()
				in.dead = true
				in.crashPending = true
			}
		}()
		l, err := ctlog.LoadLog(context.Background(), cfg)
		if in.inc != inc || in.dead {
			select {}
		}
		if err != nil {
			in.state = stRefused
			in.loadErr = err
			w.note("load i%d.%d failed: %s", in.idx, inc, clip(err.Error()))
			w.orc.onLoadResult(in, inc, nil, err)
			return
		}
		in.log = l
		in.logs = append(in.logs, l)
		w.smu.Lock()
		if w.muOwner == nil {
			w.muOwner = map[sync.Locker][2]int{}
		}
		w.muOwner[l.VerifPoolMuAddr()] = [2]int{in.idx, inc}
		w.muOwner[l.VerifRootsMuAddr()] = [2]int{in.idx, inc}
		w.smu.Unlock()
		l.VerifCacheReadConn().SetTracer(&cacheTracer{w: w, in: in, inc: inc, l: l})
		in.handler = l.Handler()
		w.rootsAfterLoad(in)
		in.state = stRunning
		n, h, t := l.VerifTree()
		w.note("load i%d.%d ok size=%d root=%x time=%d", in.idx, inc, n, h[:4], t)
		w.orc.onLoadResult(in, inc, l, nil)
		in.justLoaded = true
		ctx, cancel := context.WithCancel(context.Background())
		in.seqCancel = cancel
		in.seqStart = time.Now()
		err = l.RunSequencer(ctx, in.period)
		if in.inc != inc || in.dead {
			select {}
		}
		in.state = stStopped
		in.seqErr = err
		w.note("sequencer i%d.%d stopped: %s", in.idx, inc, clip(fmt.Sprint(err)))
		w.orc.onSequencerStopped(in, inc, err)
	}()
}

var longToken = regexp.MustCompile(`[0-9A-Za-z+/=]{24,}`)

// clip shortens a message for the event log and removes long opaque tokens
// (object bytes quoted in error messages may be randomised signature material).
func clip(s string) string {
	s = longToken.ReplaceAllString(s, "<bytes>")
	if len(s) > 160 {
		return s[:160] + "..."
	}
	return s
}

// nextTick returns the duration until the instance's sequencer ticker fires
// next (strictly in the future).
func (in *Instance) untilNextTick() time.Duration {
	el := time.Since(in.seqStart)
	k := el/in.period + 1
	return time.Duration(k)*in.period - el
}

// ---------------------------------------------------------------------------
// Workload

// Item is one distinct log entry of the workload.
type Item struct {
	ID      int
	Entry   *ctlog.PendingLogEntry
	Low     bool
	Chain   [][]byte // for HTTP submissions: DER chain as submitted
	PreChain bool
	Key     [32]byte // cache key computed independently
	Parse   bool     // certificate parses (names tile line expected)
	CN      string
	corpusIdx int
	Spec      *chainSpec
	Body      []byte // raw request body override (malformed submissions)
	// wrapperOf: this item is the same log entry as wrapperOf (same TBS and issuer
	// key hash) in another pre_certificate encoding; wrappers lists, on the first
	// item of such a group, every pre_certificate the entry was submitted with.
	wrapperOf *Item
	wrappers  [][]byte
	// altIssuers: other valid chains the same entry was submitted with (the
	// stored leaf carries the fingerprints of whichever came first)
	altIssuers [][][]byte
}

// acceptsPreCert: pre is a pre_certificate this entry was submitted with.
func (it *Item) acceptsPreCert(pre []byte) bool {
	if bytes.Equal(it.Entry.PreCertificate, pre) {
		return true
	}
	for _, w := range it.wrappers {
		if bytes.Equal(w, pre) {
			return true
		}
	}
	return false
}

// Submission is one call of addLeafToPool / add-chain for an item.
type Submission struct {
	ID     int
	Item   *Item
	Inst   int
	Inc    int
	HTTP   bool
	Low    bool
	Source string // as returned by addLeafToPool
	StartStep int
	StartTime time.Time
	PoolLenBefore int
	LowBefore int
	Done   bool
	DoneStep int
	DoneTime time.Time
	Err    error
	Code   int // HTTP status
	Index  int64
	Time   int64
	SCT    []byte // HTTP response body
	// Returned counts how many times the wait function returned (must be 1).
	Returned int
	Checked bool
	PoolLenAfter, LowAfter int
	prefill bool
	admissionChecked bool
	gotEntry *sunlight.LogEntry
	sctRsp *ct.AddChainResponse
	cacheEpoch int
	retryAfter   string
	expectAccept bool
	rootTrusted  bool
	faultedPlan  bool
}

func independentCacheKey(e *ctlog.PendingLogEntry) [32]byte {
	// RFC 6962 entry identity: x509_entry(cert) or precert_entry(issuer_key_hash, tbs).
	var b []byte
	if !e.IsPrecert {
		b = append(b, 0, 0)
	} else {
		b = append(b, 0, 1)
		b = append(b, e.IssuerKeyHash[:]...)
	}
	n := len(e.Certificate)
	b = append(b, byte(n>>16), byte(n>>8), byte(n))
	b = append(b, e.Certificate...)
	return sha256.Sum256(b)
}

// makeItem builds workload item k with the given shape.
func (w *World) makeItem(k int, shape int) *Item {
	c := corpus.Get()
	it := &Item{ID: k, corpusIdx: k}
	e := &ctlog.PendingLogEntry{}
	switch shape % 6 {
	case 0: // certificate, one issuer
		e.Certificate = c.Leaf(k, corpus.LeafOpts{})
		e.Issuers = [][]byte{c.Inter[0].DER}
		it.Parse = true
	case 1: // certificate, three issuers
		e.Certificate = c.Leaf(k, corpus.LeafOpts{Issuer: c.Inter[1], WithIP: true})
		e.Issuers = [][]byte{c.Inter[1].DER, c.Inter[0].DER, c.Root.DER}
		it.Parse = true
	case 2: // precertificate
		pre := c.Leaf(k, corpus.LeafOpts{Precert: true})
		e.IsPrecert = true
		e.PreCertificate = pre
		e.Certificate = append([]byte("TBS:"), corpus.TBS(pre)...)
		e.IssuerKeyHash = c.Inter[0].SPKIHash()
		e.Issuers = [][]byte{c.Inter[0].DER, c.Root.DER}
		it.Parse = true
	case 3: // unparseable bytes, no issuers
		e.Certificate = []byte(fmt.Sprintf("junk-certificate-%d-%s", k, bytes.Repeat([]byte{byte(k)}, k%40)))
	case 4: // certificate, no issuers
		e.Certificate = c.Leaf(k, corpus.LeafOpts{})
		it.Parse = true
	case 5: // unparseable precertificate
		e.IsPrecert = true
		e.PreCertificate = []byte(fmt.Sprintf("junk-precert-%d", k))
		e.Certificate = []byte(fmt.Sprintf("junk-tbs-%d", k))
		e.IssuerKeyHash = sha256.Sum256([]byte{byte(k)})
		e.Issuers = [][]byte{[]byte(fmt.Sprintf("junk-issuer-%d", k%3))}
	}
	it.Entry = e
	it.Key = independentCacheKey(e)
	it.CN = fmt.Sprintf("leaf%d.example.com", k)
	return it
}

// submit starts a submitter task for item it on instance in.
func (w *World) submit(in *Instance, it *Item, low bool, plan []int) *Submission {
	s := &Submission{ID: len(w.subs), Item: it, Inst: in.idx, Inc: in.inc, Low: low,
		StartStep: w.sim.Step, StartTime: time.Now(), Index: -1, cacheEpoch: in.cacheEpoch}
	w.subs = append(w.subs, s)
	w.plan, w.planPos = plan, 0
	l := in.log
	s.PoolLenBefore, _ = poolInfo(l)
	inc := in.inc
	go func() {
		defer func() {
			// a submitter that panics got no outcome at all
			if r := recover(); r != nil {
				if in.inc != inc || in.dead {
					select {}
				}
				w.smu.Lock()
				prop := "C17"
				if w.prof.Prop == "C02" {
					prop = "C02" // "waiters see an error unless every step succeeded"
				}
				w.orc.v(prop, "waiter-panic", "submission %d panicked instead of getting an outcome: %s", s.ID, clip(fmt.Sprint(r)))
				w.smu.Unlock()
				s.Returned++
				s.Done, s.DoneStep, s.Err = true, w.sim.Step, fmt.Errorf("panic: %v", r)
			}
		}()
		e := *it.Entry // addLeafToPool keeps the pointer; give each submission its own copy
		wait, src := l.VerifAddLeafToPool(context.Background(), &e, low)
		s.Source = src
		w.note("sub %d item %d i%d.%d low=%v -> %s", s.ID, it.ID, in.idx, inc, low, src)
		w.orc.onAdmission(in, s)
		le, err := wait(context.Background())
		if in.inc != inc || in.dead {
			select {}
		}
		s.Returned++
		s.Done = true
		s.DoneStep = w.sim.Step
		s.DoneTime = time.Now()
		s.Err = err
		if le != nil {
			s.Index, s.Time = le.LeafIndex, le.Timestamp
			s.gotEntry = le
		}
		if err != nil {
			w.note("ack sub %d err=%s", s.ID, clip(err.Error()))
		} else {
			w.note("ack sub %d idx=%d ts=%d", s.ID, s.Index, s.Time)
		}
		w.orc.pendingAcks(s)
	}()
	return s
}

func poolInfo(l *ctlog.Log) (int, int) {
	if l == nil {
		return 0, 0
	}
	n, low := l.VerifPool()
	return n, len(low)
}

// submitHTTP sends the item's chain through the real HTTP handler.
func (w *World) submitHTTP(in *Instance, it *Item, plan []int) *Submission {
	s := &Submission{ID: len(w.subs), Item: it, Inst: in.idx, Inc: in.inc, HTTP: true,
		StartStep: w.sim.Step, StartTime: time.Now(), Index: -1, cacheEpoch: in.cacheEpoch}
	w.subs = append(w.subs, s)
	w.plan, w.planPos = plan, 0
	h := in.handler
	inc := in.inc
	go func() {
		defer func() {
			// net/http would turn a handler panic into an aborted connection
			if r := recover(); r != nil {
				if in.inc != inc || in.dead {
					select {}
				}
				prop := "C17"
				if w.prof.Prop == "C02" {
					prop = "C02"
				}
				w.smu.Lock()
				w.orc.v(prop, "waiter-panic", "HTTP submission %d panicked instead of getting an outcome: %s", s.ID, clip(fmt.Sprint(r)))
				w.smu.Unlock()
				s.Returned++
				s.Done, s.DoneStep, s.Code, s.Err = true, w.sim.Step, 500, fmt.Errorf("panic: %v", r)
			}
		}()
		body, _ := json.Marshal(struct {
			Chain [][]byte `json:"chain"`
		}{it.Chain})
		if it.Body != nil {
			body = it.Body
		}
		ep := "/ct/v1/add-chain"
		if it.PreChain {
			ep = "/ct/v1/add-pre-chain"
		}
		req := httptest.NewRequest("POST", ep, bytes.NewReader(body))
		rec := httptest.NewRecorder()
		h.ServeHTTP(rec, req)
		if in.inc != inc || in.dead {
			select {}
		}
		s.Returned++
		s.Done = true
		s.DoneStep = w.sim.Step
		s.DoneTime = time.Now()
		s.Code = rec.Code
		s.SCT = rec.Body.Bytes()
		s.retryAfter = rec.Header().Get("Retry-After")
		if rec.Code != 200 {
			s.Err = fmt.Errorf("http %d: %s", rec.Code, clip(rec.Body.String()))
			w.note("ack sub %d http=%d", s.ID, rec.Code)
		} else {
			w.orc.parseSCT(in, s)
			w.note("ack sub %d http=200 idx=%d ts=%d", s.ID, s.Index, s.Time)
		}
		w.orc.pendingAcks(s)
	}()
	return s
}

func (w *World) cachePath(idx int) string {
	return filepath.Join(w.tmp, fmt.Sprintf("cache-%d.db", idx))
}

var _ = sunlight.TileHeight

// cacheTracer turns the end of every statement on the deduplication-cache read
// connection into a seam -- but only when poolMu is not held. In sunlight the
// lookup runs under poolMu, so nothing ever parks here; a change that moves the
// lookup out of the critical section becomes schedulable against the sequencer.
type cacheTracer struct {
	w   *World
	in  *Instance
	inc int
	l   *ctlog.Log
}

type cacheTask struct{ t *cacheTracer }

func (t *cacheTracer) NewTask(name string) sqlite.TracerTask { return cacheTask{t} }
func (t *cacheTracer) Push(name string)                      {}
func (t *cacheTracer) Pop()                                  {}
func (c cacheTask) StartRegion(string)                       {}
func (c cacheTask) End()                                     {}
func (c cacheTask) EndRegion() {
	t := c.t
	w := t.w
	if w.auto || t.in.dead || t.in.inc != t.inc {
		return
	}
	w.probeMu.Lock()
	held := t.l.VerifPoolMuHeld() || t.l.VerifMutexHeld()
	w.probeMu.Unlock()
	if held {
		return
	}
	w.sim.Probe("cache.lookup.outside-lock")
	op := &core.Op{ID: w.sim.NewOpID(t.in.idx, t.inc, "cache", "lookup"), Inst: t.in.idx, Inc: t.inc, Kind: "cache", Key: "lookup", Payload: &pendingOp{}}
	w.sim.Park(op)
}
