package seq

import (
	"bufio"
	"encoding/json"
	"flag"
	"fmt"
	"os"
	"runtime"
	"testing"
	"time"

	"filippo.io/sunlight/internal/verifsim/core"
)

var (
	fProp     = flag.String("prop", "C01", "property whose profile distribution to use")
	fTier     = flag.String("tier", "quick", "quick|thorough")
	fSeed     = flag.Uint64("seed", 1, "base seed (VERIF_SEED)")
	fFrom     = flag.Int("from", 0, "first run index")
	fStride   = flag.Int("stride", 1, "run index stride")
	fCount    = flag.Int("count", 100, "number of runs")
	fBudget   = flag.Duration("budget", time.Minute, "wall-clock budget")
	fOut      = flag.String("out", "", "JSONL output file")
	fFailDir  = flag.String("faildir", "", "directory for unminimised failing traces")
	fReplay   = flag.String("replay", "", "replay file to execute")
	fMinimise = flag.String("minimise", "", "failing trace to minimise")
	fMinOut   = flag.String("minout", "", "where to write the minimised replay")
	fLog      = flag.Bool("log", false, "print the event log")
	fRunSeed  = flag.Uint64("runseed", 0, "run exactly this run seed")
	fAll      = flag.Bool("allprops", false, "treat a violation of any property as failure")
	fKeepAll  = flag.Bool("keepall", false, "keep the event log of every run in the output (debugging)")
)

const engineName = "seq"

func watchdog(d time.Duration, what string) func() {
	done := make(chan struct{})
	go func() {
		select {
		case <-done:
		case <-time.After(d):
			buf := make([]byte, 1<<20)
			n := runtime.Stack(buf, true)
			fmt.Fprintf(os.Stderr, "WATCHDOG: %s exceeded %v\n%s\n", what, d, buf[:n])
			os.Exit(2)
		}
	}()
	return func() { close(done) }
}

func relevant(res *core.RunResult, prop string) []core.Violation {
	var out []core.Violation
	for _, v := range res.Violations {
		if *fAll || v.Property == prop {
			out = append(out, v)
		}
	}
	return out
}

func TestWorker(t *testing.T) {
	if *fOut == "" {
		t.Skip("no -out")
	}
	f, err := os.Create(*fOut)
	if err != nil {
		t.Fatal(err)
	}
	defer f.Close()
	bw := bufio.NewWriter(f)
	defer bw.Flush()
	enc := json.NewEncoder(bw)
	deadline := time.Now().Add(*fBudget)
	for i := 0; i < *fCount && time.Now().Before(deadline); i++ {
		j := *fFrom + i**fStride
		rs := core.Mix(*fSeed, uint64(j))
		if *fRunSeed != 0 {
			rs = *fRunSeed
		}
		prof := MakeProfile(*fProp, rs, *fTier)
		if *fProp == "C03" && j%5 == 4 && *fRunSeed == 0 {
			// every fifth run index: a complete single-crash sweep of a fault-free base schedule
			sweepC03(t, enc, bw, rs, deadline)
			continue
		}
		stop := watchdog(900*time.Second, fmt.Sprintf("run seed=%d", rs))
		res := Run(t, rs, prof, nil, i < 2 || *fKeepAll)
		stop()
		if res.Infra != "" {
			fmt.Fprintf(os.Stderr, "INFRA seed=%d: %s\n", rs, res.Infra)
		}
		if vs := relevant(res, *fProp); len(vs) > 0 && *fFailDir != "" {
			rp := &core.Replay{Property: vs[0].Property, Engine: engineName, Seed: rs, Profile: prof.JSON(),
				Trace: cur0Trace(res), Violation: vs[0].String(), Class: vs[0].Class, OrigLen: len(lastTrace)}
			rp.Note = vs[0].Sig
			rp.Save(fmt.Sprintf("%s/fail-%s-%d.json", *fFailDir, vs[0].Property, rs))
		}
		if err := enc.Encode(res); err != nil {
			t.Fatal(err)
		}
		bw.Flush()
		if *fRunSeed != 0 {
			break
		}
	}
}


func cur0Trace(*core.RunResult) []core.Cmd { return lastTrace }

func TestReplay(t *testing.T) {
	if *fReplay == "" {
		t.Skip("no -replay")
	}
	rp, err := core.LoadReplay(*fReplay)
	if err != nil {
		t.Fatal(err)
	}
	prof, err := ProfileFromJSON(rp.Profile)
	if err != nil {
		t.Fatal(err)
	}
	stop := watchdog(1500*time.Second, "replay")
	res := Run(t, rp.Seed, prof, nonNil(rp.Trace), true)
	stop()
	if *fLog {
		for _, l := range res.Sample {
			fmt.Println(l)
		}
	}
	if res.Infra != "" {
		fmt.Fprintf(os.Stderr, "INFRA: %s\n", res.Infra)
		os.Exit(2)
	}
	found := false
	for _, v := range res.Violations {
		if v.Property == rp.Property && v.Class == rp.Class {
			found = true
			fmt.Printf("REPRODUCED property=%s class=%s sig=%q %s\n", v.Property, v.Class, v.Sig, v.Detail)
			break
		}
	}
	fmt.Printf("REPLAY log_hash=%s steps=%d violations=%d\n", res.LogHash, res.Steps, len(res.Violations))
	if !found {
		fmt.Printf("NOT-REPRODUCED property=%s class=%s\n", rp.Property, rp.Class)
		os.Exit(3)
	}
}

func nonNil(t []core.Cmd) []core.Cmd {
	if t == nil {
		return []core.Cmd{}
	}
	return t
}

func TestMinimise(t *testing.T) {
	if *fMinimise == "" {
		t.Skip("no -minimise")
	}
	rp, err := core.LoadReplay(*fMinimise)
	if err != nil {
		t.Fatal(err)
	}
	prof, err := ProfileFromJSON(rp.Profile)
	if err != nil {
		t.Fatal(err)
	}
	deadline := time.Now().Add(*fBudget)
	test := func(tr []core.Cmd) bool {
		if time.Now().After(deadline) {
			return false
		}
		stop := watchdog(1500*time.Second, "minimise run")
		res := Run(t, rp.Seed, prof, nonNil(tr), false)
		stop()
		if res.Infra != "" {
			return false
		}
		for _, v := range res.Violations {
			if v.Property == rp.Property && v.Class == rp.Class {
				return true
			}
		}
		return false
	}
	if !test(rp.Trace) {
		fmt.Println("MINIMISE: original trace does not reproduce")
		os.Exit(3)
	}
	min := core.Minimise(rp.Trace, test, simplifyCmd, 400)
	// final run to capture the message
	res := Run(t, rp.Seed, prof, nonNil(min), false)
	for _, v := range res.Violations {
		if v.Property == rp.Property && v.Class == rp.Class {
			rp.Violation = v.String()
			rp.Note = v.Sig
			break
		}
	}
	rp.OrigLen = len(rp.Trace)
	rp.Trace = min
	rp.Minimised = true
	if err := rp.Save(*fMinOut); err != nil {
		t.Fatal(err)
	}
	fmt.Printf("MINIMISED %d -> %d commands\n", rp.OrigLen, len(min))
}

func simplifyCmd(c core.Cmd) []core.Cmd {
	var out []core.Cmd
	switch c.A {
	case "rel":
		if c.Out != core.OutOK {
			d := c
			d.Out = core.OutOK
			out = append(out, d)
		}
	case "submit":
		if len(c.L) > 0 {
			d := c
			d.L = nil
			out = append(out, d)
		}
	case "crash":
		if len(c.L) > 0 {
			d := c
			d.L = nil
			out = append(out, d)
		}
	}
	return out
}

// sweepC03 runs a fault-free base schedule, then re-runs it once per step with a
// crash inserted after that step -- with nothing, everything, and each single
// one of the in-flight mutating operations applied -- followed by the epilogue
// (restart, audit, fresh entry). A complete single-crash sweep of that schedule.
func sweepC03(t *testing.T, enc *json.Encoder, bw *bufio.Writer, rs uint64, deadline time.Time) {
	prof := MakeProfile("C03", rs, *fTier)
	prof.Tag = "sweep-base"
	prof.OpErrW, prof.CrashW, prof.ClockW, prof.StallW, prof.StopW, prof.SlowW, prof.MaxCrashes = 0, 0, 0, 0, 0, 0, 0
	prof.Steps = 60 + int(rs%60)
	if prof.Items > 12 {
		prof.Items = 12
	}
	stop := watchdog(900*time.Second, fmt.Sprintf("sweep base seed=%d", rs))
	base := Run(t, rs, prof, nil, false)
	stop()
	enc.Encode(base)
	bw.Flush()
	trace := append([]core.Cmd(nil), lastTrace...)
	prof.Tag = "sweep"
	prof.MaxCrashes = 1
	for i := 1; i <= len(trace) && time.Now().Before(deadline); i++ {
		for _, variant := range [][]int{nil, {0, 1, 2, 3, 4, 5, 6, 7}, {0}, {1}, {2}, {3}} {
			tr := append(append([]core.Cmd(nil), trace[:i]...), core.Cmd{A: "crash", L: variant})
			stop := watchdog(900*time.Second, fmt.Sprintf("sweep seed=%d at %d", rs, i))
			res := Run(t, rs, prof, tr, false)
			stop()
			res.ProfileTag = "sweep"
			if vs := relevant(res, *fProp); len(vs) > 0 && *fFailDir != "" {
				rp := &core.Replay{Property: vs[0].Property, Engine: engineName, Seed: rs, Profile: prof.JSON(),
					Trace: tr, Violation: vs[0].String(), Class: vs[0].Class, OrigLen: len(tr)}
				rp.Save(fmt.Sprintf("%s/fail-%s-%d.json", *fFailDir, vs[0].Property, rs))
			}
			enc.Encode(res)
			bw.Flush()
			if res.Probes["crash.inflight"] == 0 && res.Probes["crash.loading-inflight"] == 0 {
				break // nothing was in flight at this step: the other subsets are the same run
			}
		}
	}
}

// TestRealUploadHelper runs a fixed sequence of LocalBackend calls on the real
// file system; tools/strace_fidelity.py traces it and compares the system-call
// sequence with the one the simulated os records for the same calls (C13).
func TestRealUploadHelper(t *testing.T) {
	dir := os.Getenv("VERIF_REAL_UPLOAD_DIR")
	if dir == "" {
		t.Skip("no VERIF_REAL_UPLOAD_DIR")
	}
	realUploadSequence(t, dir)
}
