package seq

import (
	"crypto/sha256"
	"errors"
	"fmt"

	"filippo.io/sunlight/internal/ctlog"
	"filippo.io/sunlight/internal/verifsim/ref"
	ct "github.com/google/certificate-transparency-go"
	cttls "github.com/google/certificate-transparency-go/tls"
)

// auditAs runs the storage audit but attributes failures to prop.
func (o *oracle) auditAs(st *Store, sth *ref.VerifiedSTH, why, prop string) bool {
	before := len(o.w.sim.Viol)
	ok := o.audit(st, sth, why)
	if prop != "C04" {
		o.w.sim.Reattribute(before, "C04", prop)
	}
	return ok
}

// checkPools: a pool never holds more entries than configured (C17).
func (o *oracle) checkPools() {
	for _, in := range o.w.insts {
		if in.log == nil || in.dead || in.pool <= 0 {
			continue
		}
		n, _ := in.log.VerifPool()
		if n > in.pool {
			o.v("C17", "pool-overflow", "i%d.%d pool holds %d entries, limit %d", in.idx, in.inc, n, in.pool)
		}
	}
}

// checkReload: after a successful LoadLog every tile of the tree the instance
// loaded is in storage (C03).
func (o *oracle) checkReload(in *Instance) {
	if in.log == nil {
		return
	}
	n, h, t := in.log.VerifTree()
	sth := &ref.VerifiedSTH{Timestamp: t}
	sth.Size = n
	sth.Root = ref.Hash(h)
	if o.tampered {
		return
	}
	o.auditAs(in.store, sth, fmt.Sprintf("reload i%d.%d", in.idx, in.inc), "C03")
	o.w.sim.Probe("reload.ok")
}


// checkOutcome is the admission-control oracle for one finished submission.
func (o *oracle) checkOutcome(in *Instance, s *Submission) {
	w := o.w
	if s.prefill {
		return
	}
	if s.HTTP && s.Item.Spec != nil {
		// priority and admission are decided inside the handler; checked by C09's oracle
		return
	}
	full := in.pool > 0 && s.PoolLenBefore >= in.pool
	switch s.Source {
	case "ratelimit":
		if !full {
			o.v("C17", "ratelimit-not-full", "sub %d rate limited with %d/%d entries pending", s.ID, s.PoolLenBefore, in.pool)
		} else if !s.Low && s.LowBefore > 0 {
			o.v("C17", "ratelimit-despite-low", "high-priority sub %d rate limited while %d low-priority entries were pending", s.ID, s.LowBefore)
		}
		if !errors.Is(s.Err, ctlog.VerifErrPoolFull) && !s.HTTP {
			o.v("C17", "ratelimit-outcome", "sub %d source=ratelimit but outcome %v", s.ID, s.Err)
		}
	case "sequencer":
		if full {
			if s.Low || s.LowBefore == 0 {
				o.v("C17", "admitted-over-limit", "sub %d (low=%v) admitted to a full pool (%d/%d, %d low pending)", s.ID, s.Low, s.PoolLenBefore, in.pool, s.LowBefore)
			} else {
				w.sim.Probe("evict.admission")
				if s.PoolLenAfter != s.PoolLenBefore {
					o.v("C17", "eviction-count", "eviction changed pool occupancy from %d to %d", s.PoolLenBefore, s.PoolLenAfter)
				}
				if s.LowAfter != s.LowBefore-1 {
					o.v("C17", "eviction-count", "high-priority admission at a full pool changed low-priority count from %d to %d", s.LowBefore, s.LowAfter)
				}
			}
		}
	}
	if s.Err != nil && errors.Is(s.Err, ctlog.VerifErrEvicted) {
		w.sim.Probe("evict.outcome")
		o.evictions++
		if s.Source == "sequencer" {
			// (a duplicate that joined the evicted entry's waiter shares its fate)
			if !s.Low {
				o.v("C17", "evicted-high-priority", "high-priority sub %d was evicted", s.ID)
			}
			o.w.smu.Lock()
			o.admitted[s.Item.Key]--
			o.w.smu.Unlock()
		}
	}
	if s.HTTP {
		switch {
		case s.Source == "ratelimit" || (s.Err != nil && s.Code == 503):
			if s.Code != 503 {
				o.v("C17", "http-status", "rate-limited sub %d answered %d", s.ID, s.Code)
			}
		}
	}
	// after a stop nothing is acknowledged any more
	if in.state == stStopped && s.Inc == in.inc && s.Err == nil && s.DoneStep > in.stopStep {
		o.v("C17", "ack-after-stop", "sub %d acknowledged at step %d after the sequencer stopped at step %d", s.ID, s.DoneStep, in.stopStep)
	}
	if lostAt, ok := o.casLost[[2]int{in.idx, s.Inc}]; ok && s.Err == nil && s.DoneStep >= lostAt && s.Source == "sequencer" {
		o.v("C06", "ack-after-cas-loss", "sub %d acknowledged by an instance that lost the CAS at step %d", s.ID, lostAt)
	}
}

// checkSCT verifies the SCT of an HTTP acknowledgement independently.
func (o *oracle) checkSCT(in *Instance, s *Submission, e *ref.Entry) {
	rsp := s.sctRsp
	id, _ := ctlog.VerifLogID(in.key)
	if string(rsp.ID) != string(id[:]) {
		o.v("C02", "sct-logid", "sub %d: SCT log id is not the hash of the log key", s.ID)
	}
	if rsp.SCTVersion != ct.V1 {
		o.v("C02", "sct-version", "sub %d: SCT version %d", s.ID, rsp.SCTVersion)
	}
	var ds ct.DigitallySigned
	if rest, err := cttls.Unmarshal(rsp.Signature, &ds); err != nil || len(rest) != 0 {
		o.v("C02", "sct-signature-parse", "sub %d: %v", s.ID, err)
		return
	}
	// signature input: the stored leaf's MerkleTreeLeaf with signature_type 0,
	// which is byte-identical to the RFC 6962 SCT signature input
	msg := e.MerkleTreeLeaf()
	sv, err := ct.NewSignatureVerifier(in.key.Public())
	if err != nil {
		return
	}
	if err := sv.VerifySignature(msg, cttls.DigitallySigned(ds)); err != nil {
		o.v("C02", "sct-signature", "sub %d: SCT does not verify over the stored leaf: %v", s.ID, err)
	}
	if prev, ok := o.sctSeen[s.Item.Key]; ok && s.cacheEpoch == prev.epoch && string(prev.body) != string(s.SCT) {
		o.v("C07", "sct-differs", "item %d got two different SCTs within one cache epoch", s.Item.ID)
	}
	o.sctSeen[s.Item.Key] = sctRec{body: s.SCT, epoch: s.cacheEpoch}
}

type sctRec struct {
	body  []byte
	epoch int
}


var _ = sha256.Sum256

// checkAdmission is the C07 admission rule, evaluated right after a submit
// step: an entry that is pending, in sequencing or acknowledged in the current
// cache epoch is never admitted as a new leaf.
func (o *oracle) checkAdmission(in *Instance, s *Submission) {
	if s.Source == "" {
		return
	}
	for _, e := range o.w.subs {
		if e == s || e.Item.Key != s.Item.Key || e.Inst != s.Inst || e.prefill {
			continue
		}
		if e.Done && e.Err == nil && e.cacheEpoch == s.cacheEpoch {
			if s.Source == "sequencer" || s.Source == "ratelimit" {
				o.v("C07", "readmitted-after-ack", "sub %d of item %d got source %q although sub %d was acknowledged in the same cache epoch", s.ID, s.Item.ID, s.Source, e.ID)
			}
			return
		}
	}
	for _, e := range o.w.subs {
		if e == s || e.Item.Key != s.Item.Key || e.Inst != s.Inst || e.Inc != s.Inc {
			continue
		}
		if !e.Done && e.Source == "sequencer" && e.ID < s.ID {
			if s.Source != "pool" {
				o.v("C07", "readmitted-while-pending", "sub %d of item %d got source %q while sub %d is pending", s.ID, s.Item.ID, s.Source, e.ID)
			}
			return
		}
	}
}

// checkStops: after the sequencer stopped nobody is left waiting, and an
// instance that lost a CAS stopped with the fatal error (C17, C06).
func (o *oracle) checkStops() {
	w := o.w
	for _, in := range w.insts {
		if in.dead {
			continue
		}
		if in.state == stStopped {
			// (a submitter still parked before poolMu has not reached a pool yet:
			// it will be refused when it gets there)
			n := 0
			for _, s := range w.subs {
				if s.Inst == in.idx && s.Inc == in.inc && !s.Done && (s.Source != "" || s.HTTP && !w.prof.Yield) {
					n++
				}
			}
			if n > 0 {
				o.v("C17", "stranded-after-stop", "i%d.%d: %d submissions still waiting after the sequencer stopped", in.idx, in.inc, n)
			}
		}
		if in.timeGuardHit && in.timeGuardInc == in.inc && w.instParked(in) == 0 {
			in.timeGuardHit = false
			if in.state == stRunning {
				prop := "C17"
				if w.prof.Prop == "C01" {
					prop = "C01"
				}
				o.v(prop, "time-guard-not-fatal", "i%d.%d: a round was refused because time did not progress, but the sequencer keeps running (it must stop; only a restart re-reads the clock against the lock checkpoint)", in.idx, in.inc)
			}
		}
		k := [2]int{in.idx, in.inc}
		if o.casPending[k] {
			delete(o.casPending, k)
			if in.state != stStopped || !errors.Is(in.seqErr, ctlog.VerifErrFatal) {
				o.v("C06", "cas-loss-not-fatal", "i%d.%d lost a compare-and-swap but its sequencer did not stop with the fatal error (state %s, err %v)", in.idx, in.inc, in.state, in.seqErr)
			}
		}
	}
}
