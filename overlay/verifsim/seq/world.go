// Package seq is the sequencer simulator: real ctlog.Log instances over a
// simulated object store, lock store, clock and scheduler.
package seq

import (
	"bytes"
	"context"
	"crypto/sha256"
	"errors"
	"fmt"
	"sort"
	"sync"
	"time"

	"filippo.io/sunlight/internal/ctlog"
	"filippo.io/sunlight/internal/verifsim/core"
	"filippo.io/sunlight/internal/verifsim/ref"
	"github.com/prometheus/client_golang/prometheus"
)

var (
	errInjected = errors.New("verifsim: injected failure")
	errNotFound = errors.New("verifsim: object not found")
	errImmutable = errors.New("verifsim: immutable object exists with different content")
)

// ---------------------------------------------------------------------------
// Durable state

type Obj struct {
	Data []byte
	Opts ctlog.UploadOptions
	Ver  int // bumped on every effective write of the key (by anyone)
}

// Store is one object storage bucket.
type Store struct {
	idx  int
	objs map[string]*Obj
	ver  int
	// immSeen is the hash of the bytes sunlight itself uploaded with
	// Immutable=true under a key (M-imm); independent of tampering.
	immSeen map[string][32]byte
	// pubHist is the history of effective uploads of "checkpoint".
	pubHist []*CkptEvent
	// tamperedAt: scheduler step of the last tamper action on a key that
	// sunlight has not written since.
	tamperedAt map[string]int
}

func newStore(idx int) *Store {
	return &Store{idx: idx, objs: map[string]*Obj{}, immSeen: map[string][32]byte{}, tamperedAt: map[string]int{}}
}

func (s *Store) get(key string) ([]byte, bool) {
	o, ok := s.objs[key]
	if !ok {
		return nil, false
	}
	return o.Data, true
}

func (s *Store) put(key string, data []byte, opts *ctlog.UploadOptions) {
	delete(s.tamperedAt, key)
	s.ver++
	o := &Obj{Data: bytes.Clone(data), Ver: s.ver}
	if opts != nil {
		o.Opts = *opts
	}
	s.objs[key] = o
}

func (s *Store) keys() []string {
	ks := make([]string, 0, len(s.objs))
	for k := range s.objs {
		ks = append(ks, k)
	}
	sort.Strings(ks)
	return ks
}

// CkptEvent is a checkpoint that took effect in the lock store or in storage.
type CkptEvent struct {
	Step  int
	Inst  int
	Inc   int
	Where string // "lock" or "store<i>"
	Bytes []byte
	STH   *ref.VerifiedSTH // nil if it does not verify
	Err   error
	// StaleLock is set for a store publication made by an instance whose
	// in-memory lock value was no longer the lock store's (C06 finding).
	StaleLock bool
}

type LockStore struct {
	vals map[[32]byte][]byte
	hist map[[32]byte][]*CkptEvent
}

func newLockStore() *LockStore {
	return &LockStore{vals: map[[32]byte][]byte{}, hist: map[[32]byte][]*CkptEvent{}}
}

type lockedCkpt struct {
	id [32]byte
	b  []byte
}

func (l *lockedCkpt) Bytes() []byte { return l.b }

// ---------------------------------------------------------------------------
// Handles given to sunlight

type opResult struct {
	data []byte
	lc   ctlog.LockedCheckpoint
	err  error
}

// pendingOp is the payload of a parked core.Op.
type pendingOp struct {
	store *Store
	data  []byte
	opts  *ctlog.UploadOptions
	id    [32]byte
	old   []byte
	res   opResult
}

type backendH struct {
	w     *World
	inst  *Instance
	inc   int
	store *Store
}

func (h *backendH) Upload(ctx context.Context, key string, data []byte, opts *ctlog.UploadOptions) error {
	r := h.w.seam(h.inst, h.inc, ctx, "up", key, true, &pendingOp{store: h.store, data: bytes.Clone(data), opts: opts})
	return r.err
}

func (h *backendH) Fetch(ctx context.Context, key string) ([]byte, error) {
	r := h.w.seam(h.inst, h.inc, ctx, "get", key, false, &pendingOp{store: h.store})
	return r.data, r.err
}

func (h *backendH) Discard(ctx context.Context, key string) error {
	r := h.w.seam(h.inst, h.inc, ctx, "del", key, true, &pendingOp{store: h.store})
	return r.err
}

func (h *backendH) Metrics() []prometheus.Collector { return nil }

type lockH struct {
	w    *World
	inst *Instance
	inc  int
}

func (h *lockH) Fetch(ctx context.Context, logID [sha256.Size]byte) (ctlog.LockedCheckpoint, error) {
	r := h.w.seam(h.inst, h.inc, ctx, "lfetch", fmt.Sprintf("%x", logID[:4]), false, &pendingOp{id: logID})
	return r.lc, r.err
}

func (h *lockH) Replace(ctx context.Context, old ctlog.LockedCheckpoint, new []byte) (ctlog.LockedCheckpoint, error) {
	o, ok := old.(*lockedCkpt)
	if !ok {
		return nil, errors.New("verifsim: foreign LockedCheckpoint")
	}
	r := h.w.seam(h.inst, h.inc, ctx, "lreplace", fmt.Sprintf("%x", o.id[:4]), true, &pendingOp{id: o.id, old: o.b, data: bytes.Clone(new)})
	return r.lc, r.err
}

func (h *lockH) Create(ctx context.Context, logID [sha256.Size]byte, new []byte) error {
	r := h.w.seam(h.inst, h.inc, ctx, "lcreate", fmt.Sprintf("%x", logID[:4]), true, &pendingOp{id: logID, data: bytes.Clone(new)})
	return r.err
}

// ---------------------------------------------------------------------------
// World

type World struct {
	sim  *core.Sim
	prof *Profile

	// smu guards durable state against the (rare) effects applied from seam
	// goroutines (non-yielding operations, auto mode).
	smu     sync.Mutex
	stores  []*Store
	lock    *LockStore
	probeMu sync.Mutex

	// auto: operations take effect immediately with outcome ok (set-up and
	// prefill only).
	auto bool

	clock clockState

	insts []*Instance
	items []*Item
	subs  []*Submission

	// plan for the non-yielding operations of the task started in this step.
	plan    []int
	planPos int

	notesMu sync.Mutex
	notes   []string

	orc *oracle

	tmp string // scratch directory (cache files)

	crashes    int
	simStart   time.Time
	simMillis  int64
	nextItem   int
	submitted  []int
	prefillN   int
	muOwner    map[sync.Locker][2]int // poolMu / rootsMu address -> (instance, incarnation)
	rootsTasks int                    // setroots tasks in flight
	bulkDone   bool
	timeMoves  int // commands that let simulated time pass
	bulkCrashed bool
	noYield    bool
	admChecked int
	bulkOK, bulkErr int
	prefillItems []*Item
	inEpilogue bool
	failedItems []int
	tamperCount int
	creator     *Instance
	creates     int
	recomputes  int
}

type clockState struct {
	offsetMs int64
	frozen   bool
	frozenAt int64
}

func (w *World) nowMilli() int64 {
	if w.clock.frozen {
		return w.clock.frozenAt
	}
	return time.Now().UnixMilli() + w.clock.offsetMs
}

// note records an event-log line from a seam goroutine; flushed in sorted order
// by the scheduler so that parallelism inside a step cannot show.
func (w *World) note(format string, a ...any) {
	s := fmt.Sprintf(format, a...)
	w.notesMu.Lock()
	w.notes = append(w.notes, s)
	w.notesMu.Unlock()
}

func (w *World) flushNotes() {
	w.notesMu.Lock()
	n := w.notes
	w.notes = nil
	w.notesMu.Unlock()
	if len(n) > 0 {
		w.sim.LogSorted(n)
	}
}

// seam is where every storage and lock operation of sunlight arrives.
func (w *World) seam(inst *Instance, inc int, ctx context.Context, kind, key string, mut bool, p *pendingOp) opResult {
	if w.auto {
		w.smu.Lock()
		w.apply(inst, inc, kind, key, p, true)
		w.smu.Unlock()
		return p.res
	}
	dead := inst.dead || inst.inc != inc
	w.probeMu.Lock()
	held := inst.log != nil && inst.log.VerifMutexHeld()
	w.probeMu.Unlock()
	if held {
		// Non-yielding: the caller holds a mutex another task may want, so it
		// must not park. Outcome from the plan drawn when the task was started.
		out := core.OutOK
		if dead {
			out = core.OutErrNot
		} else {
			switch w.nextPlan() {
			case 1:
				out = core.OutErrNot
			case 2:
				out = core.OutErrApplied
			case 3:
				// crash delivered inside the critical section
				inst.dead = true
				inst.crashPending = true
				out = core.OutErrNot
			}
		}
		if !mut && out == core.OutErrApplied {
			out = core.OutErrNot
		}
		w.smu.Lock()
		w.apply(inst, inc, kind, key, p, out != core.OutErrNot)
		w.smu.Unlock()
		if out != core.OutOK {
			p.res = opResult{err: fmt.Errorf("%w (%s %s)", errInjected, kind, key)}
			w.sim.Probe("fault.nonyield." + out)
		}
		w.note("ny i%d.%d %s %s -> %s", inst.idx, inc, kind, key, out)
		w.sim.Probe("op.nonyield")
		return p.res
	}
	if dead {
		select {} // a dead process does nothing
	}
	op := &core.Op{
		ID:   w.sim.NewOpID(inst.idx, inc, kind, key),
		Inst: inst.idx, Inc: inc, Kind: kind, Key: key, Mut: mut, Ctx: ctx, Payload: p,
	}
	w.sim.Park(op)
	return p.res
}

func (w *World) nextPlan() int {
	if w.planPos < len(w.plan) {
		v := w.plan[w.planPos]
		w.planPos++
		return v
	}
	w.planPos++
	return 0
}

// apply performs the effect of an operation on durable state (if effect is
// true) and fills in the successful result. Callers hold smu or are the
// scheduler at quiescence.
func (w *World) apply(inst *Instance, inc int, kind, key string, p *pendingOp, effect bool) {
	st := p.store
	switch kind {
	case "get":
		if !effect {
			p.res = opResult{err: errInjected}
			return
		}
		if d, ok := st.get(key); ok {
			p.res = opResult{data: bytes.Clone(d)}
		} else {
			p.res = opResult{err: fmt.Errorf("%w: %s", errNotFound, key)}
		}
	case "up":
		if !effect {
			return
		}
		w.orc.onUpload(inst, inc, st, key, p)
	case "del":
		if !effect {
			return
		}
		w.orc.onDiscard(inst, inc, st, key, p)
	case "lfetch":
		if !effect {
			p.res = opResult{err: errInjected}
			return
		}
		if v, ok := w.lock.vals[p.id]; ok {
			p.res = opResult{lc: &lockedCkpt{id: p.id, b: bytes.Clone(v)}}
		} else {
			p.res = opResult{err: ctlog.ErrLogNotFound}
		}
	case "lreplace":
		if !effect {
			return
		}
		cur, ok := w.lock.vals[p.id]
		if !ok || !bytes.Equal(cur, p.old) {
			p.res = opResult{err: errors.New("verifsim: lock checkpoint has changed")}
			w.orc.onCASLost(inst, inc)
			return
		}
		w.lock.vals[p.id] = bytes.Clone(p.data)
		w.orc.onLockCommit(inst, inc, p.id, p.data, "replace")
		p.res = opResult{lc: &lockedCkpt{id: p.id, b: bytes.Clone(p.data)}}
	case "lcreate":
		if !effect {
			return
		}
		if _, ok := w.lock.vals[p.id]; ok {
			p.res = opResult{err: errors.New("verifsim: lock checkpoint exists")}
			return
		}
		w.lock.vals[p.id] = bytes.Clone(p.data)
		w.orc.onLockCommit(inst, inc, p.id, p.data, "create")
	}
}

// yield is ctlog.VerifYield for the current run: the calling goroutine is about
// to take poolMu; park it and let the scheduler decide when it goes on.
func (w *World) yield(mu sync.Locker) {
	if !w.prof.Yield || w.auto || w.noYield {
		return // noYield: the scheduler goroutine itself is calling into the log
	}
	w.smu.Lock()
	o, ok := w.muOwner[mu]
	w.smu.Unlock()
	if !ok {
		return
	}
	in := w.insts[o[0]]
	if in.inc != o[1] || in.dead {
		select {}
	}
	key := "poolMu"
	if in.log != nil && mu == in.log.VerifRootsMuAddr() {
		key = "rootsMu"
	}
	op := &core.Op{ID: w.sim.NewOpID(in.idx, o[1], "yield", key), Inst: in.idx, Inc: o[1], Kind: "yield", Key: key, Payload: &pendingOp{}}
	w.sim.Probe("yield." + key)
	w.sim.Park(op)
}

// yieldPoint is ctlog.VerifYieldPoint: a pool's done channel was just closed.
// Single-instance runs only (the hook carries no identity).
func (w *World) yieldPoint() {
	if !w.prof.Yield || w.auto || w.noYield || len(w.insts) != 1 {
		return
	}
	in := w.insts[0]
	if in.dead {
		select {}
	}
	if in.log == nil || in.log.VerifPoolMuHeld() {
		return // closing under poolMu (eviction, sequencer exit): parking here would wedge everybody else
	}
	op := &core.Op{ID: w.sim.NewOpID(in.idx, in.inc, "yield", "close"), Inst: in.idx, Inc: in.inc, Kind: "yield", Key: "close", Payload: &pendingOp{}}
	w.sim.Probe("yield.close")
	w.sim.Park(op)
}

// stopping: some instance was cancelled in the middle of a round and its
// sequencer has not returned yet; no simulated time may pass until it has.
func (w *World) stopping() bool {
	for _, in := range w.insts {
		if in.stopping && in.state == stRunning && !in.dead {
			return true
		}
	}
	return false
}
