// Package client (clientsim) runs the real sunlight.Client against an
// in-process Static CT server that damages, substitutes, reorders, delays and
// refuses responses under the seeded scheduler (C12).
package client

import (
	"bytes"
	"compress/gzip"
	"context"
	"crypto/ecdsa"
	"crypto/rand"
	"crypto/sha256"
	"crypto/x509"
	"encoding/json"
	"fmt"
	"io"
	"log/slog"
	"net/http"
	"runtime/debug"
	"encoding/base64"
	"encoding/binary"
	"os"
	"path/filepath"
	"sort"
	"strings"
	"testing"
	"testing/synctest"
	"time"

	"filippo.io/mldsa"
	"filippo.io/sunlight"
	"filippo.io/sunlight/internal/ctlog"
	"filippo.io/sunlight/internal/verifsim/core"
	"filippo.io/sunlight/internal/verifsim/corpus"
	"filippo.io/sunlight/internal/verifsim/ref"
	"filippo.io/sunlight/internal/verifsim/simnet"
	ct "github.com/google/certificate-transparency-go"
	cttls "github.com/google/certificate-transparency-go/tls"
	"golang.org/x/mod/sumdb/tlog"
)

type Profile struct {
	Prop    string `json:"prop"`
	Tag     string `json:"tag"`
	Size    int64  `json:"size"`
	ForkAt  int64  `json:"fork_at"`
	Calls   int    `json:"calls"`
	FaultW  int    `json:"fault_w"`
	Limit   int    `json:"concurrency_limit"`
	Steps   int    `json:"steps"`
	// Allow sets the client's AllowRFC6962ArchivalLeafs option. Misidx is the
	// number of positions of the authentic log that hold a copy of an earlier
	// leaf (a log that sequenced an entry twice: the committed leaf's own index
	// differs from its position).
	// FileMode: "file" or "gzip+file": the client reads a directory instead of
	// HTTP; damage is done to the files before each call and undone after it.
	FileMode string `json:"file_mode,omitempty"`
	Allow  bool `json:"allow_archival,omitempty"`
	Misidx int  `json:"misindexed,omitempty"`
}

func MakeProfile(prop string, seed uint64, tier string) *Profile {
	r := core.NewRand(core.Mix(seed, 0xc11e))
	p := &Profile{Prop: prop, Steps: 500}
	p.Size = []int64{1, 2, 5, 255, 256, 257, 300, 511, 512, 513, 700, 1100}[r.Intn(12)]
	if tier == "thorough" && r.Chance(1, 30) {
		p.Size = 65534 + int64(r.Intn(5))
	}
	p.ForkAt = int64(r.Intn(int(p.Size)))
	p.Calls = 2 + r.Intn(5)
	p.Limit = []int{0, 1, 3}[r.Intn(3)]
	p.Tag = "faultfree"
	if r.Chance(3, 4) {
		p.Tag = "faults"
		p.FaultW = []int{5, 20, 50}[r.Intn(3)]
	}
	if p.Size <= 1100 && r.Chance(1, 6) {
		p.FileMode = []string{"file", "gzip+file"}[r.Intn(2)]
		p.Tag += "+filemode"
	}
	p.Allow = r.Chance(1, 3)
	if p.Size > 1 && r.Chance(1, 3) {
		p.Misidx = 1 + r.Intn(3)
		p.Tag += "+misidx"
	}
	return p
}

func (p *Profile) JSON() json.RawMessage { b, _ := json.Marshal(p); return b }

func ProfileFromJSON(b []byte) (*Profile, error) {
	p := &Profile{}
	return p, json.Unmarshal(b, p)
}

var lastTrace []core.Cmd

const logName = "sim.example/clientlog"

type truth struct {
	entries [2][]*ref.Entry
	tree    [2]*ref.Tree
}

type call struct {
	id    int
	kind  string
	n     int64 // tree size given to the client
	start int64
	idx   int64
	sctKind string
	sct   []byte
	// results
	done   bool
	err    error
	yields []yield
	entry  *sunlight.LogEntry
	ckptN  int64
	ckptHash tlog.Hash
	ckptOrigin string
	faults int
}

type yield struct {
	i int64
	e *sunlight.LogEntry
}

type world struct {
	sim   *core.Sim
	prof  *Profile
	key   *ecdsa.PrivateKey
	wkey  *mldsa.PrivateKey
	t     *truth
	net   *simnet.Net
	srv   *http.Server
	cl    *sunlight.Client
	calls []*call
	cur   *call
	servedCkpt [][]byte // checkpoint bodies actually sent to the client during the current call
	mis        []int64  // positions whose committed leaf carries another index
}

func (w *world) v(class, format string, a ...any) { w.sim.Violate("C12", class, format, a...) }

func Run(t *testing.T, seed uint64, prof *Profile, replay []core.Cmd, keepLog bool) *core.RunResult {
	start := time.Now()
	sim := core.NewSim(seed)
	sim.KeepLog(keepLog)
	w := &world{sim: sim, prof: prof}
	corpus.Get()
	var infra string
	func() {
		defer func() {
			if r := recover(); r != nil {
				s := fmt.Sprint(r)
				if strings.Contains(s, "deadlock: main bubble goroutine has exited") {
					return
				}
				infra = "panic: " + s + "\n" + string(debug.Stack())
			}
		}()
		synctest.Test(t, func(t *testing.T) {
			defer func() {
				if r := recover(); r != nil {
					infra = "panic in bubble: " + fmt.Sprint(r) + "\n" + string(debug.Stack())
				}
			}()
			w.main(replay)
		})
	}()
	lastTrace = sim.Trace
	res := &core.RunResult{Seed: seed, Profile: prof.JSON(), ProfileTag: prof.Tag, Steps: sim.Step,
		LogHash: sim.LogHash(), SchedHash: core.SchedHash(sim.Trace), Faults: core.FaultCounts(sim.Trace),
		Probes: sim.Probes, Violations: sim.Viol, Infra: infra, WallMicros: time.Since(start).Microseconds()}
	res.Nontrivial = len(res.Faults) > 0 || sim.Probes["concurrent.requests"] > 0
	if keepLog {
		res.Sample = sim.Log()
	}
	return res
}

func (w *world) buildTruth() {
	p := w.prof
	r := core.NewRand(core.Mix(w.sim.Seed, 0x7277))
	c := corpus.Get()
	t := &truth{}
	mis := map[int64]bool{}
	for k := 0; k < p.Misidx; k++ {
		mis[1+int64(r.Intn(int(p.Size-1)))] = true
	}
	for b := 0; b < 2; b++ {
		t.tree[b] = &ref.Tree{}
		for i := int64(0); i < p.Size; i++ {
			var e *ref.Entry
			if b == 1 && i < p.ForkAt {
				e = t.entries[0][i]
			} else if b == 0 && mis[i] {
				e = t.entries[0][r.Intn(int(i))]
				w.mis = append(w.mis, i)
			} else {
				e = &ref.Entry{Index: i, Timestamp: 946684800000 + i/7*1000 + int64(b)}
				switch r.Intn(4) {
				case 0:
					e.Cert = c.Leaf(int(i%50), corpus.LeafOpts{})
					e.Fingerprints = [][32]byte{sha256.Sum256(c.Inter[0].DER)}
				case 1:
					e.IsPrecert = true
					e.PreCert = []byte(fmt.Sprintf("precert-%d-%d", b, i))
					e.Cert = []byte(fmt.Sprintf("tbs-%d-%d-%x", b, i, r.Uint64()))
					e.IssuerKeyHash = sha256.Sum256([]byte{byte(i)})
				default:
					e.Cert = []byte(fmt.Sprintf("cert-%d-%d-%x", b, i, r.Uint64()))
				}
			}
			t.entries[b] = append(t.entries[b], e)
			t.tree[b].Append(e.LeafHash())
		}
	}
	w.t = t
}

// object renders what the log serves under path for branch b ("" if not part
// of the log).
func (w *world) object(b int, path string) ([]byte, bool, bool) {
	p := w.prof
	if path == "checkpoint" {
		return w.checkpoint(b, p.Size), false, true
	}
	c, ok := ref.ParsePath(path)
	if !ok {
		return nil, false, false
	}
	switch c.Level {
	case -2:
		return nil, false, false
	case -1:
		if c.N*ref.TileWidth+int64(c.W) > p.Size {
			return nil, false, false
		}
		d, ok := ref.DataTileBytes(w.t.entries[b], c)
		return d, true, ok
	default:
		d, ok := w.t.tree[b].HashTileBytes(c)
		return d, false, ok
	}
}

func (w *world) checkpoint(b int, n int64) []byte {
	cfg := &ctlog.Config{Name: logName, Key: w.key, WitnessKey: w.wkey}
	root := w.t.tree[b].Root(n)
	ts := int64(946684800000 + n*1000)
	ck, err := ctlog.VerifSignTreeHead(cfg, n, root, ts)
	if err != nil {
		panic(err)
	}
	return ck
}

func gz(b []byte) []byte {
	var buf bytes.Buffer
	zw := gzip.NewWriter(&buf)
	zw.Write(b)
	zw.Close()
	return buf.Bytes()
}

// ServeHTTP is the (possibly malicious) log.
func (w *world) ServeHTTP(rw http.ResponseWriter, r *http.Request) {
	path := strings.TrimPrefix(r.URL.Path, "/")
	body, gzipped, ok := w.object(0, path)
	op := &core.Op{ID: w.sim.NewOpID(0, 0, "GET", path), Kind: "GET", Key: path, Ctx: r.Context()}
	out := w.sim.Park(op)
	verdict, arg, _ := strings.Cut(out, ":")
	if verdict != "ok" && w.cur != nil {
		w.cur.faults++
	}
	switch verdict {
	case "429", "503":
		if arg != "" {
			rw.Header().Set("Retry-After", arg)
		}
		code := 429
		if verdict == "503" {
			code = 503
		}
		http.Error(rw, "injected", code)
		return
	case "cut":
		simnet.Cut(rw)
		return
	case "stall":
		<-r.Context().Done()
		return
	case "404":
		http.NotFound(rw, r)
		return
	case "fork":
		body, gzipped, ok = w.object(1, path)
	case "subst":
		// another object of the same log: arg is the path
		body, gzipped, ok = w.object(0, arg)
	case "older":
		// an older checkpoint of the same log (valid signature)
		if path == "checkpoint" {
			n := int64(0)
			fmt.Sscan(arg, &n)
			body = w.checkpoint(0, n%(w.prof.Size+1))
		}
	case "foreign":
		if path == "checkpoint" {
			cfg := &ctlog.Config{Name: logName, Key: corpus.Key("another client log key"), WitnessKey: w.wkey}
			body, _ = ctlog.VerifSignTreeHead(cfg, w.prof.Size, w.t.tree[0].Root(w.prof.Size), 946684800000)
		}
	}
	if !ok {
		http.NotFound(rw, r)
		return
	}
	body = bytes.Clone(body)
	n := 0
	fmt.Sscan(arg, &n)
	switch verdict {
	case "flip":
		if len(body) > 0 {
			body[n%len(body)] ^= 1 << uint(n/7%8)
		}
	case "truncate":
		if len(body) > 0 {
			body = body[:n%len(body)]
		}
	case "extend":
		body = append(body, byte(n), 0, 1)
	case "idxhi":
		// a well-formed data tile in which one leaf's index has high bits set
		if c, ok := ref.ParsePath(path); ok && c.Level == -1 {
			if nb, ok := indexHighBits(body, c.W, n); ok {
				body = nb
			}
		}
	case "sigalg":
		// the log's signature line with another signature algorithm id and
		// garbage where the signature was
		if path == "checkpoint" {
			if v, err := sunlight.NewRFC6962Verifier(logName, w.key.Public()); err == nil {
				body = forgeSigAlg(body, logName, v.KeyHash(), n)
			}
		}
	case "extline":
		// an extension line nobody signed (the RFC 6962 signature covers size,
		// root and timestamp only), spliced in after the root line
		if path == "checkpoint" {
			if parts := bytes.SplitN(body, []byte("\n"), 4); len(parts) == 4 {
				body = bytes.Join([][]byte{parts[0], parts[1], parts[2], []byte(fmt.Sprintf("injected extension %d", n)), parts[3]}, []byte("\n"))
			}
		}
	}
	if path == "checkpoint" {
		w.servedCkpt = append(w.servedCkpt, bytes.Clone(body))
	}
	if gzipped {
		z := gz(body)
		if verdict == "gzflip" && len(z) > 12 {
			z[10+n%(len(z)-10)] ^= 0x20
		}
		if verdict == "gztrunc" && len(z) > 1 {
			z = z[:n%len(z)]
		}
		rw.Header().Set("Content-Encoding", "gzip")
		body = z
	}
	if verdict == "short" {
		// announce more than is sent
		rw.Header().Set("Content-Length", fmt.Sprint(len(body)+10))
		rw.Write(body)
		return
	}
	rw.Write(body)
}

func (w *world) main(replay []core.Cmd) {
	p := w.prof
	sim := w.sim
	w.key = corpus.Key("client log key")
	wk, err := mldsa.NewPrivateKey(mldsa.MLDSA44(), sha256sum("client log witness key"))
	if err != nil {
		panic(err)
	}
	w.wkey = wk
	w.buildTruth()
	if p.FileMode != "" {
		w.mainFile()
		return
	}
	w.net = simnet.New()
	w.srv = simnet.Serve(w.net, w)
	// a per-request timeout, as any production HTTP client has: a stalled
	// server then costs time (on the fake clock), not the run
	// keep-alives off: which request gets a pooled connection (and hence whether
	// net/http transparently retries it after a drop) is a race inside net/http
	hc := &http.Client{Transport: &http.Transport{DialContext: w.net.Dialer(0), DisableKeepAlives: true}, Timeout: 2 * time.Minute}
	cl, err := sunlight.NewClient(&sunlight.ClientConfig{
		MonitoringPrefix: "http://log.sim/",
		PublicKey:        w.key.Public(),
		HTTPClient:       hc,
		UserAgent:        "verifsim (+https://example.com)",
		ConcurrencyLimit: p.Limit,
		AllowRFC6962ArchivalLeafs: p.Allow,
		Logger:           slog.New(slog.NewTextHandler(io.Discard, nil)),
	})
	if err != nil {
		panic(err)
	}
	w.cl = cl
	w.planCalls()
	ri := 0
	next := 0
	for sim.Step < p.Steps {
		synctest.Wait()
		w.finish()
		var cmd core.Cmd
		if replay != nil {
			if ri >= len(replay) {
				break
			}
			cmd = replay[ri]
			ri++
		} else {
			en := w.enabled(next, false)
			if len(en) == 0 {
				break
			}
			cmd = sim.Choose(en)
		}
		if w.exec(cmd, &next) {
			sim.Trace = append(sim.Trace, cmd)
			sim.Logf("cmd %s", cmd.String())
			sim.Step++
		}
	}
	// drain the call in flight without further faults
	for i := 0; i < 5000; i++ {
		synctest.Wait()
		w.finish()
		if w.cur == nil {
			break
		}
		en := w.enabled(len(w.calls), true)
		if len(en) == 0 {
			break
		}
		w.exec(en[0].Cmd, &next)
	}
	synctest.Wait()
	w.finish()
	if w.cur != nil {
		w.v("hang", "client call %s did not return", w.cur.kind)
	}
	w.net.Close()
	w.srv.Close()
	hc.CloseIdleConnections()
}

func sha256sum(s string) []byte { h := sha256.Sum256([]byte(s)); return h[:] }

func (w *world) planCalls() {
	p := w.prof
	r := core.NewRand(core.Mix(w.sim.Seed, 0xca11))
	for i := 0; i < p.Calls; i++ {
		c := &call{id: i}
		c.n = p.Size
		if r.Chance(1, 3) && p.FileMode == "" {
			c.n = 1 + int64(r.Intn(int(p.Size)))
		}
		switch r.Intn(6) {
		case 0:
			c.kind = "checkpoint"
		case 1:
			c.kind = "entries"
			c.start = int64(r.Intn(int(c.n)))
			if r.Chance(1, 2) {
				c.start = 0
			}
		case 2:
			c.kind = "allentries"
			c.start = int64(r.Intn(int(c.n)))
			if r.Chance(1, 2) {
				c.start = 0
			}
		case 3:
			c.kind = "entry"
			c.idx = int64(r.Intn(int(c.n)))
			if len(w.mis) > 0 && r.Chance(1, 2) {
				c.idx, c.n = w.mis[r.Intn(len(w.mis))], p.Size
			}
		default:
			c.kind = "inclusion"
			c.idx = int64(r.Intn(int(c.n)))
			c.sctKind = []string{"valid", "valid", "wrong-logid", "wrong-timestamp", "wrong-index", "wrong-signature", "bad-extension", "fork-leaf"}[r.Intn(8)]
			if len(w.mis) > 0 && r.Chance(1, 2) {
				// the genuine SCT of the duplicated leaf, rewritten to name the
				// position of the copy
				c.idx, c.n, c.sctKind = w.mis[r.Intn(len(w.mis))], p.Size, "position-index"
			}
			c.sct = w.makeSCT(c, r)
		}
		w.calls = append(w.calls, c)
	}
}

func (w *world) makeSCT(c *call, r *core.Rand) []byte {
	e := w.t.entries[0][c.idx]
	signed := e
	spki, _ := x509.MarshalPKIXPublicKey(w.key.Public())
	logID := sha256.Sum256(spki)
	ts := uint64(e.Timestamp)
	idx := e.Index
	switch c.sctKind {
	case "wrong-logid":
		logID[3] ^= 1
	case "position-index":
		idx = c.idx
	case "wrong-timestamp":
		ts++
	case "wrong-index":
		idx = (idx + 1 + int64(r.Intn(int(w.prof.Size)))) % w.prof.Size
		if idx == e.Index {
			c.sctKind = "valid"
		}
	case "fork-leaf":
		// an SCT the log key really issued, but for the leaf of the other branch
		if c.idx >= w.prof.ForkAt {
			signed = w.t.entries[1][c.idx]
			ts = uint64(signed.Timestamp)
		} else {
			c.sctKind = "valid"
		}
	}
	h := sha256.Sum256(signed.MerkleTreeLeaf())
	sig, err := ecdsa.SignASN1(rand.Reader, w.key, h[:])
	if err != nil {
		panic(err)
	}
	if c.sctKind == "wrong-signature" {
		sig[len(sig)-2] ^= 1
	}
	ext := []byte{0, 0, 5, byte(idx >> 32), byte(idx >> 24), byte(idx >> 16), byte(idx >> 8), byte(idx)}
	if c.sctKind == "bad-extension" {
		ext = []byte{0, 0, 4, byte(idx >> 24), byte(idx >> 16), byte(idx >> 8), byte(idx)}
	}
	sct := ct.SignedCertificateTimestamp{SCTVersion: ct.V1, LogID: ct.LogID{KeyID: logID}, Timestamp: ts, Extensions: ext,
		Signature: ct.DigitallySigned{Algorithm: cttls.SignatureAndHashAlgorithm{Hash: cttls.SHA256, Signature: cttls.ECDSA}, Signature: sig}}
	b, err := cttls.Marshal(sct)
	if err != nil {
		panic(err)
	}
	return b
}

func (w *world) enabled(next int, drain bool) []core.WCmd {
	p := w.prof
	r := w.sim.Rng
	var out []core.WCmd
	parked := w.sim.Parked()
	if len(parked) >= 2 {
		w.sim.Probe("concurrent.requests")
	}
	for _, op := range parked {
		out = append(out, core.WCmd{Cmd: core.Cmd{A: "rel", Op: op.ID, Out: "ok"}, W: 100})
		if drain || p.FaultW == 0 {
			continue
		}
		n := r.Intn(1 << 20)
		kinds := []string{"flip", "truncate", "extend", "fork", "429", "503", "cut", "404", "short"}
		if c, ok := ref.ParsePath(op.Key); ok {
			kinds = append(kinds, "subst", "subst")
			if c.Level == -1 {
				kinds = append(kinds, "gzflip", "gztrunc", "idxhi", "idxhi")
			}
		}
		if op.Key == "checkpoint" {
			kinds = append(kinds, "older", "foreign", "flip", "extend", "extline", "extline", "sigalg", "sigalg")
		}
		k := kinds[r.Intn(len(kinds))]
		arg := fmt.Sprint(n)
		switch k {
		case "429", "503":
			arg = []string{"", "1", "30"}[r.Intn(3)]
		case "subst":
			arg = w.substPath(op.Key, r)
		}
		out = append(out, core.WCmd{Cmd: core.Cmd{A: "rel", Op: op.ID, Out: k + ":" + arg}, W: p.FaultW})
		if r.Chance(1, 10) {
			out = append(out, core.WCmd{Cmd: core.Cmd{A: "rel", Op: op.ID, Out: "stall:"}, W: p.FaultW})
		}
	}
	if w.cur == nil && next < len(w.calls) && !drain {
		out = append(out, core.WCmd{Cmd: core.Cmd{A: "call", N: int64(next)}, W: 100})
	}
	if w.cur != nil && len(parked) == 0 {
		out = append(out, core.WCmd{Cmd: core.Cmd{A: "adv", N: 1000}, W: 50})
		out = append(out, core.WCmd{Cmd: core.Cmd{A: "adv", N: 130000}, W: 20})
	}
	if w.cur != nil && len(parked) > 0 && !drain && p.FaultW > 0 {
		out = append(out, core.WCmd{Cmd: core.Cmd{A: "adv", N: 61000}, W: p.FaultW / 2})
	}
	return out
}

// substPath picks another object of the same log to serve instead.
func (w *world) substPath(path string, r *core.Rand) string {
	c, ok := ref.ParsePath(path)
	if !ok {
		return path
	}
	size := w.prof.Size
	alt := c
	switch r.Intn(4) {
	case 0: // other index on the same level
		nodes := size >> uint(8*max(c.Level, 0))
		if nodes > 256 {
			alt.N = int64(r.Intn(int(nodes / 256)))
			alt.W = 256
		}
	case 1: // other level
		if c.Level >= 0 {
			alt.Level = c.Level + 1 - 2*r.Intn(2)
			if alt.Level < 0 {
				alt.Level = 1
			}
			alt.N = 0
			nodes := size >> uint(8*alt.Level)
			alt.W = int(min(nodes, 256))
			if alt.W == 0 {
				return path
			}
		}
	case 2: // a narrower partial of the same tile
		if c.W > 1 {
			alt.W = 1 + r.Intn(c.W-1)
		}
	case 3: // a wider version of the same tile
		nodes := size >> uint(8*max(c.Level, 0))
		maxW := int(min(nodes-c.N*256, 256))
		if maxW > c.W {
			alt.W = c.W + 1 + r.Intn(maxW-c.W)
		}
	}
	return alt.Path()
}

func (w *world) exec(c core.Cmd, next *int) bool {
	switch c.A {
	case "rel":
		op := w.sim.ParkedOp(c.Op)
		if op == nil {
			return false
		}
		if c.Out != "ok" {
			k, _, _ := strings.Cut(c.Out, ":")
			w.sim.Probe("fault." + k)
		}
		w.sim.Release(op, c.Out)
		return true
	case "adv":
		if w.cur != nil && len(w.sim.Parked()) > 0 {
			// time passing while a response is withheld is a fault (slow server)
			w.cur.faults++
			w.sim.Probe("fault.slow")
		}
		time.Sleep(time.Duration(c.N) * time.Millisecond)
		return true
	case "call":
		if w.cur != nil || *next >= len(w.calls) {
			return false
		}
		w.startCall(w.calls[*next])
		*next++
		return true
	}
	return false
}

func (w *world) startCall(c *call) {
	w.cur = c
	w.servedCkpt = nil
	tree := tlog.Tree{N: c.n, Hash: tlog.Hash(w.t.tree[0].Root(c.n))}
	go func() {
		ctx := context.Background()
		switch c.kind {
		case "checkpoint":
			ck, _, err := w.cl.Checkpoint(ctx)
			c.err = err
			c.ckptN, c.ckptHash, c.ckptOrigin = ck.N, ck.Hash, ck.Origin
		case "entries":
			for i, e := range w.cl.Entries(ctx, tree, c.start) {
				c.yields = append(c.yields, yield{i, e})
			}
			c.err = w.cl.Err()
		case "allentries":
			for i, e := range w.cl.AllEntries(ctx, tree, c.start) {
				c.yields = append(c.yields, yield{i, e})
			}
			c.err = w.cl.Err()
		case "entry":
			e, _, err := w.cl.Entry(ctx, tree, c.idx)
			c.entry, c.err = e, err
		case "inclusion":
			e, _, err := w.cl.CheckInclusion(ctx, tree, c.sct)
			c.entry, c.err = e, err
		}
		c.done = true
	}()
}

func sameLeaf(e *sunlight.LogEntry, t *ref.Entry) bool {
	return e.IsPrecert == t.IsPrecert && bytes.Equal(e.Certificate, t.Cert) && e.IssuerKeyHash == t.IssuerKeyHash &&
		e.Timestamp == t.Timestamp && e.LeafIndex == t.Index
}

// finish evaluates the oracle for a completed call.
func (w *world) finish() {
	c := w.cur
	if c == nil || !c.done {
		return
	}
	w.cur = nil
	t := w.t.entries[0]
	w.sim.Logf("call %d %s n=%d start=%d idx=%d sct=%s -> err=%v yields=%d faults=%d", c.id, c.kind, c.n, c.start, c.idx, c.sctKind, c.err != nil, len(c.yields), c.faults)
	w.sim.Probe("call." + c.kind)
	switch c.kind {
	case "entries", "allentries":
		want := c.start
		for _, y := range c.yields {
			if y.i != want {
				w.v("yield-order", "%s from %d yielded index %d where %d was due", c.kind, c.start, y.i, want)
			}
			want = y.i + 1
			if y.i < 0 || y.i >= c.n {
				w.v("yield-outside-tree", "%s yielded index %d for a tree of size %d", c.kind, y.i, c.n)
				continue
			}
			if !sameLeaf(y.e, t[y.i]) {
				w.v("unauthentic-entry", "%s yielded at index %d an entry whose Merkle-covered fields differ from the leaf the tree head commits to (leaf index %d, ts %d)", c.kind, y.i, y.e.LeafIndex, y.e.Timestamp)
			}
		}
		if c.faults == 0 {
			if c.err != nil {
				w.v("faultfree-error", "%s failed without any fault: %v", c.kind, c.err)
			}
			end := c.n
			if c.kind == "entries" {
				// may stop before a trailing partial tile
				top := c.n / 256 * 256
				if top > c.start/256*256 {
					end = top
				}
			}
			if want != end {
				w.v("faultfree-incomplete", "%s from %d over a tree of size %d stopped at %d, want %d", c.kind, c.start, c.n, want, end)
			} else {
				w.sim.Probe("complete." + c.kind)
			}
		}
	case "entry":
		if c.err == nil && !sameLeaf(c.entry, t[c.idx]) {
			w.v("unauthentic-entry", "Entry(%d) returned other content than the leaf the tree head commits to", c.idx)
		}
		if t[c.idx].Index != c.idx {
			// the committed leaf names another index: refusing it is right,
			// returning it as it is committed is within the statement
			w.sim.Probe("entry.misindexed")
		} else if c.faults == 0 && c.err != nil {
			w.v("faultfree-error", "Entry(%d) failed without any fault: %v", c.idx, c.err)
		}
	case "inclusion":
		if c.err == nil {
			if c.sctKind != "valid" {
				w.v("sct-confirmed", "CheckInclusion confirmed an SCT that is %s", c.sctKind)
			} else if !sameLeaf(c.entry, t[c.idx]) {
				w.v("unauthentic-entry", "CheckInclusion(%d) returned other content than the authentic leaf", c.idx)
			} else {
				w.sim.Probe("inclusion.confirmed")
			}
		} else if c.faults == 0 && c.sctKind == "valid" {
			w.v("faultfree-error", "CheckInclusion of a valid SCT failed without any fault: %v", c.err)
		}
	case "checkpoint":
		if c.err == nil {
			// what was returned must be a tree head the configured key signed,
			// in one of the bodies actually served
			ok := false
			for _, b := range w.servedCkpt {
				if v, err := ref.VerifyLogCheckpoint(b, logName, &w.key.PublicKey); err == nil &&
					v.Size == c.ckptN && tlog.Hash(v.Root) == c.ckptHash && v.Origin == c.ckptOrigin {
					ok = true
				}
			}
			if !ok {
				w.v("checkpoint-unauthentic", "Checkpoint returned (%s, %d, %x) which no served checkpoint signed by the configured key states", c.ckptOrigin, c.ckptN, c.ckptHash[:4])
			} else {
				w.sim.Probe("checkpoint.ok")
			}
		} else if c.faults == 0 {
			w.v("faultfree-error", "Checkpoint failed without any fault: %v", c.err)
		}
	}
}

var _ = sort.Ints

// indexHighBits re-encodes a data tile with bits 32..39 of one leaf's index set.
func indexHighBits(raw []byte, width, n int) ([]byte, bool) {
	es, err := ref.DecodeDataTile(raw, width)
	if err != nil || len(es) == 0 {
		return nil, false
	}
	j := n % len(es)
	e := *es[j]
	e.Index |= int64(1+n%200) << 32
	es[j] = &e
	var b []byte
	for _, x := range es {
		b = x.AppendTileLeaf(b)
	}
	return b, true
}

// ---------------------------------------------------------------------------
// file:// modes: the log is a directory; every call runs against a directory in
// which (when faults are on) one file was damaged, and which is restored after.

func (w *world) mainFile() {
	p := w.prof
	dir, err := os.MkdirTemp(os.Getenv("VERIF_TMP"), "clientsim-")
	if err != nil {
		panic(err)
	}
	defer os.RemoveAll(dir)
	gzipped := p.FileMode == "gzip+file"
	files := map[string][]byte{}
	put := func(rel string, b []byte) {
		files[rel] = b
		full := filepath.Join(dir, filepath.FromSlash(rel))
		os.MkdirAll(filepath.Dir(full), 0o755)
		if err := os.WriteFile(full, b, 0o644); err != nil {
			panic(err)
		}
	}
	put("checkpoint", w.checkpoint(0, p.Size))
	for _, c := range ref.RequiredTiles(p.Size, false) {
		b, isData, ok := w.object(0, c.Path())
		if !ok {
			continue
		}
		if isData && gzipped {
			b = gz(b)
		}
		put(c.Path(), b)
	}
	cl, err := sunlight.NewClient(&sunlight.ClientConfig{
		MonitoringPrefix:          p.FileMode + "://" + dir,
		PublicKey:                 w.key.Public(),
		AllowRFC6962ArchivalLeafs: p.Allow,
		Logger:                    slog.New(slog.NewTextHandler(io.Discard, nil)),
	})
	if err != nil {
		panic(err)
	}
	w.cl = cl
	w.planCalls()
	var rels []string
	for rel := range files {
		rels = append(rels, rel)
	}
	sort.Strings(rels)
	for i, c := range w.calls {
		r := core.NewRand(core.Mix(w.sim.Seed, 0xf11e+uint64(i)))
		damaged := ""
		if p.FaultW > 0 && r.Chance(2, 3) {
			rel := rels[r.Intn(len(rels))]
			orig := files[rel]
			b := bytes.Clone(orig)
			tc, isTile := ref.ParsePath(rel)
			kind := []string{"flip", "truncate", "extend", "fork", "idxhi", "delete"}[r.Intn(6)]
			n := r.Intn(1 << 20)
			switch kind {
			case "flip":
				if len(b) > 0 {
					b[n%len(b)] ^= 1 << uint(n/7%8)
				}
			case "truncate":
				if len(b) > 0 {
					b = b[:n%len(b)]
				}
			case "extend":
				b = append(b, byte(n), 0, 1)
			case "fork":
				if fb, isData, ok := w.object(1, rel); ok {
					b = fb
					if isData && gzipped {
						b = gz(b)
					}
				}
			case "idxhi":
				if isTile && tc.Level == -1 {
					raw, _, _ := w.object(0, rel)
					if nb, ok := indexHighBits(raw, tc.W, n); ok {
						b = nb
						if gzipped {
							b = gz(b)
						}
					}
				}
			case "delete":
				b = nil
			}
			full := filepath.Join(dir, filepath.FromSlash(rel))
			if kind == "delete" {
				os.Remove(full)
			} else {
				os.WriteFile(full, b, 0o644)
			}
			if !bytes.Equal(b, orig) || kind == "delete" {
				damaged = rel
				c.faults++
				w.sim.Probe("fault.file." + kind)
			}
			w.sim.Logf("damage %s %s", kind, rel)
		}
		if c.kind == "checkpoint" {
			if b, err := os.ReadFile(filepath.Join(dir, "checkpoint")); err == nil {
				w.servedCkpt = [][]byte{b}
			}
		}
		sim := w.sim
		sim.Trace = append(sim.Trace, core.Cmd{A: "call", N: int64(i)})
		w.startCall(c)
		if c.kind == "checkpoint" {
			if b, err := os.ReadFile(filepath.Join(dir, "checkpoint")); err == nil {
				w.servedCkpt = [][]byte{b}
			}
		}
		for k := 0; k < 1000 && !c.done; k++ {
			synctest.Wait()
			if !c.done {
				time.Sleep(time.Second)
			}
		}
		sim.Step++
		w.finish()
		if damaged != "" {
			os.WriteFile(filepath.Join(dir, filepath.FromSlash(damaged)), files[damaged], 0o644)
		}
		w.sim.Probe("filemode.call")
	}
}

// forgeSigAlg rewrites the first signature line of name: the TLS signature
// algorithm byte becomes one that does not match the key, the signature bytes
// garbage; size and root are altered too, so that acceptance is visible.
func forgeSigAlg(ck []byte, name string, keyHash uint32, n int) []byte {
	lines := strings.SplitAfter(string(ck), "\n")
	for i, l := range lines {
		if !strings.HasPrefix(l, "— "+name+" ") {
			continue
		}
		parts := strings.SplitN(strings.TrimSuffix(l, "\n"), " ", 3)
		raw, err := base64.StdEncoding.DecodeString(parts[2])
		if err != nil || len(raw) < 20 || binary.BigEndian.Uint32(raw) != keyHash {
			continue // the ML-DSA cosignature carries the same name; line order is random
		}
		raw[13] = byte(n % 3) // anonymous(0), rsa(1), dsa(2): none is ecdsa(3)
		for j := 16; j < len(raw); j++ {
			raw[j] = byte(n + j)
		}
		lines[i] = parts[0] + " " + parts[1] + " " + base64.StdEncoding.EncodeToString(raw) + "\n"
		if len(lines) > 1 {
			lines[1] = fmt.Sprintf("%d\n", 100000+n%1000)
		}
		return []byte(strings.Join(lines, ""))
	}
	return ck
}
