package wit

import (
	"bytes"
	"compress/gzip"
	"crypto/sha256"
	"encoding/base64"
	"encoding/hex"
	"fmt"
	"io"
	"strconv"
	"strings"
	"testing/synctest"

	"filippo.io/sunlight/internal/verifsim/core"
	"filippo.io/sunlight/internal/verifsim/ref"
	"filippo.io/sunlight/internal/witness"
	"filippo.io/torchwood"
	"golang.org/x/mod/sumdb/note"
	"golang.org/x/mod/sumdb/tlog"
)

type commitRec struct {
	step int
	req  *request
	n    int64
	root ref.Hash
	raw  []byte
}

type oracle struct {
	w *World
	// per origin: history of witness-checkpoint commits and mirror commits
	wit        map[string][]*commitRec
	mir        map[string][]*commitRec
	immSeen    map[string][32]byte
	v1, v2, vm note.Verifier
	keyOrigin  map[[32]byte]*glog
	keyMirror  map[[32]byte]*glog
}

func newOracle(w *World) *oracle {
	return &oracle{w: w, wit: map[string][]*commitRec{}, mir: map[string][]*commitRec{}, immSeen: map[string][32]byte{},
		keyOrigin: map[[32]byte]*glog{}, keyMirror: map[[32]byte]*glog{}}
}

func (o *oracle) v(prop, class, format string, a ...any) { o.w.sim.Violate(prop, class, format, a...) }

func (o *oracle) onStart(inc *incarnation) {
	keys := inc.wit.VerifierKeys()
	var err error
	if o.v1, err = torchwood.NewCosignatureVerifier(keys[0]); err != nil {
		panic(err)
	}
	if o.v2, err = torchwood.NewCosignatureVerifier(keys[1]); err != nil {
		panic(err)
	}
	if mk, ok := inc.wit.MirrorVerifierKey(); ok {
		if o.vm, err = torchwood.NewCosignatureVerifier(mk); err != nil {
			panic(err)
		}
	}
	for _, g := range o.w.logs {
		ck, mk, _ := witness.VerifLockKeys(inc.cfg, g.origin)
		o.keyOrigin[ck] = g
		o.keyMirror[mk] = g
	}
}

func originHash(origin string) string {
	h := sha256.Sum256([]byte(origin))
	return hex.EncodeToString(h[:])
}

// ---------------------------------------------------------------------------
// storage monitor

func (o *oracle) onUpload(inc *incarnation, key string, p *pendingOp) {
	w := o.w
	h := sha256.Sum256(p.data)
	imm := p.opts != nil && p.opts.Immutable
	if prev, ok := o.immSeen[key]; ok && prev != h {
		o.v("C15", "immutable-rewrite", "different bytes uploaded to immutable key %s", key)
	}
	if imm {
		o.immSeen[key] = h
	}
	w.ver++
	ob := &obj{data: bytes.Clone(p.data), ver: w.ver}
	if p.opts != nil {
		ob.opts = *p.opts
	}
	w.objs[key] = ob
	w.sim.Probe("effect.up")
	for _, g := range w.logs {
		oh := originHash(g.origin)
		switch {
		case key == oh+"/checkpoint":
			// C14: what is published for monitors was committed to the lock store first
			if !o.committed(o.wit[g.origin], p.data) {
				o.v("C14", "published-before-recorded", "checkpoint uploaded under %s was not committed to the lock store", key)
			}
			return
		case key == "mirror/"+oh+"/checkpoint":
			if !o.committed(o.mir[g.origin], p.data) {
				o.v("C15", "mirror-published-before-recorded", "mirror checkpoint uploaded under %s was not committed to the lock store", key)
			}
			return
		case strings.HasPrefix(key, "mirror/"+oh+"/tile/"):
			if !imm {
				o.v("C15", "tile-not-immutable", "mirror tile %s uploaded without Immutable", key)
			}
			return
		}
	}
	o.v("C15", "unknown-key", "upload to unexpected key %q", key)
}

func (o *oracle) committed(hist []*commitRec, raw []byte) bool {
	for _, c := range hist {
		if bytes.Equal(c.raw, raw) {
			return true
		}
	}
	return false
}

// ---------------------------------------------------------------------------
// lock-store monitor

func parseCommitted(raw []byte) (*ref.Checkpoint, *ref.Note, error) {
	nt, err := ref.ParseNote(raw)
	if err != nil {
		return nil, nil, err
	}
	c, err := ref.ParseCheckpointText(nt.Text)
	return c, nt, err
}

func (o *oracle) onLockCommit(inc *incarnation, id [32]byte, raw []byte) {
	w := o.w
	if g, ok := o.keyOrigin[id]; ok {
		c, _, err := parseCommitted(raw)
		if err != nil {
			o.v("C14", "recorded-unparseable", "witness recorded an unparseable checkpoint for %s: %v", g.origin, err)
			return
		}
		rec := &commitRec{step: w.sim.Step, req: w.curReq, n: c.Size, root: c.Root, raw: bytes.Clone(raw)}
		hist := o.wit[g.origin]
		o.wit[g.origin] = append(hist, rec)
		w.sim.Probe("effect.witness.commit")
		w.note("witness commit %s size=%d root=%s", g.origin, c.Size, c.Root)
		if c.Origin != g.origin || len(c.Extension) != 0 {
			o.v("C14", "recorded-wrong-origin", "recorded checkpoint for %s has origin %q / extensions %v", g.origin, c.Origin, c.Extension)
		}
		prevN, prevRoot := int64(0), ref.EmptyRoot()
		if len(hist) > 0 {
			prevN, prevRoot = hist[len(hist)-1].n, hist[len(hist)-1].root
		}
		if c.Size < prevN {
			o.v("C14", "size-decreases", "witness recorded size %d after %d for %s", c.Size, prevN, g.origin)
		}
		nb := g.branchesOf(c.Size, c.Root)
		if len(nb) == 0 {
			o.v("C14", "cosigned-unknown-tree", "witness cosigned size %d root %s which is no prefix of the log %s", c.Size, c.Root, g.origin)
			return
		}
		pb := g.branchesOf(prevN, prevRoot)
		consistent := false
		for _, a := range nb {
			for _, b := range pb {
				if a == b {
					consistent = true
				}
			}
		}
		if !consistent {
			o.v("C14", "fork-cosigned", "witness cosigned size %d on branch %v after size %d on branch %v of %s: two inconsistent trees", c.Size, nb, prevN, pb, g.origin)
		}
		// the recorded note carries the witness's own verifying cosignatures
		if n, err := note.Open(raw, note.VerifierList(o.v1, o.v2)); err != nil || len(n.Sigs) != 2 {
			o.v("C14", "recorded-not-cosigned", "recorded checkpoint does not carry both witness cosignatures: %v", err)
		}
		return
	}
	if g, ok := o.keyMirror[id]; ok {
		c, _, err := parseCommitted(raw)
		if err != nil {
			o.v("C15", "mirror-unparseable", "mirror recorded an unparseable checkpoint: %v", err)
			return
		}
		rec := &commitRec{step: w.sim.Step, req: w.curReq, n: c.Size, root: c.Root, raw: bytes.Clone(raw)}
		hist := o.mir[g.origin]
		o.mir[g.origin] = append(hist, rec)
		w.sim.Probe("effect.mirror.commit")
		w.note("mirror commit %s size=%d root=%s", g.origin, c.Size, c.Root)
		if len(hist) > 0 && c.Size < hist[len(hist)-1].n {
			o.v("C15", "mirror-size-decreases", "mirror checkpoint went from %d to %d", hist[len(hist)-1].n, c.Size)
		}
		recN, _, _ := w.recorded(g)
		if c.Size > recN {
			o.v("C15", "mirror-ahead-of-pending", "mirror signed size %d while the witness's pending checkpoint has size %d", c.Size, recN)
		}
		if o.vm != nil {
			if n, err := note.Open(raw, note.VerifierList(o.vm)); err != nil || len(n.Sigs) != 1 {
				o.v("C15", "mirror-not-cosigned", "mirror checkpoint does not carry the mirror cosignature: %v", err)
			}
		}
		o.checkServable(g, c.Size, c.Root, "commit")
	}
}

func gunzip(b []byte) ([]byte, error) {
	r, err := gzip.NewReader(bytes.NewReader(b))
	if err != nil {
		return nil, err
	}
	return io.ReadAll(r)
}

// checkServable is the C15 invariant: mirror storage serves the whole tree of
// size n with the given root.
func (o *oracle) checkServable(g *glog, n int64, root ref.Hash, when string) {
	w := o.w
	fail := func(class, format string, a ...any) {
		o.v("C15", class, "mirror checkpoint size=%d (%s): %s", n, when, fmt.Sprintf(format, a...))
	}
	branches := g.branchesOf(n, root)
	if len(branches) == 0 {
		fail("mirror-unknown-tree", "root %s is no prefix of the log", root)
		return
	}
	b := branches[0]
	prefix := "mirror/" + originHash(g.origin) + "/"
	for _, tc := range ref.RequiredTiles(n, false) {
		path := tc.Path()
		if tc.Level == -1 {
			path = strings.Replace(path, "tile/data/", "tile/entries/", 1)
		}
		ob, ok := w.objs[prefix+path]
		used := tc
		if !ok && tc.W != ref.TileWidth {
			// the full tile that extends the partial one is as good
			full := ref.TileCoord{Level: tc.Level, N: tc.N, W: ref.TileWidth}
			fp := full.Path()
			if tc.Level == -1 {
				fp = strings.Replace(fp, "tile/data/", "tile/entries/", 1)
			}
			if fo, ok2 := w.objs[prefix+fp]; ok2 {
				ob, ok, used = fo, true, full
			}
		}
		if !ok {
			fail("tile-missing", "%s is not in mirror storage", path)
			continue
		}
		if tc.Level >= 0 {
			want, wok := g.tree[b].HashTileBytes(tc)
			if !wok || len(ob.data) < len(want) || !bytes.Equal(ob.data[:len(want)], want) || (used.W == tc.W && len(ob.data) != len(want)) {
				fail("tile-bytes", "hash tile %s differs from the log's tree", path)
			}
			continue
		}
		raw, err := gunzip(ob.data)
		if err != nil {
			fail("entries-encoding", "%s is not gzip: %v", path, err)
			continue
		}
		for i := 0; i < tc.W; i++ {
			if len(raw) < 2 {
				fail("entries-bytes", "%s is short", path)
				break
			}
			l := int(raw[0])<<8 | int(raw[1])
			if len(raw) < 2+l {
				fail("entries-bytes", "%s is short", path)
				break
			}
			if !bytes.Equal(raw[2:2+l], g.entries[b][tc.N*ref.TileWidth+int64(i)]) {
				fail("entries-bytes", "%s entry %d differs from the log's entry", path, i)
				break
			}
			raw = raw[2+l:]
		}
		if used.W == tc.W && len(raw) != 0 {
			fail("entries-bytes", "%s has trailing bytes", path)
		}
	}
	w.sim.Probe("servable.checked")
}

// ---------------------------------------------------------------------------
// responses

func (o *oracle) onResponse(rq *request) {
	switch rq.kind {
	case "addckpt":
		o.respAddCheckpoint(rq)
	case "addentries":
		o.respAddEntries(rq)
	case "subtree":
		o.respSubtree(rq)
	}
}

func (o *oracle) respAddCheckpoint(rq *request) {
	w := o.w
	want := map[string]int{"unknown-origin": 404, "bad-sig": 403, "old-mismatch": 409, "bad-proof": 422, "other-fork": 422,
		"malformed-old": 400, "noncanonical-old": 400, "extension": 400, "old-gt-new": 400, "no-separator": 400, "bad-root": 422, "": 200}[rq.defect]
	if rq.defect == "old-gt-new" && rq.old != rq.rec0N {
		want = 409
	}
	w.sim.Probe(fmt.Sprintf("resp.addckpt.%d", rq.code))
	if w.shadowUsed {
		// two witness processes: cached state may be stale, so the exact status
		// is not predictable; the safety clauses below still apply
		if rq.code == 200 {
			o.check200(rq)
		}
		if rq.faulted && rq.code == 200 {
			o.v("C14", "signature-after-failure", "r%d: cosignature released although a lock/storage operation of the request failed", rq.id)
		}
		return
	}
	if rq.faulted {
		if rq.code == 200 {
			o.v("C14", "signature-after-failure", "r%d: cosignature released although a lock/storage operation of the request failed (cas fault: %v)", rq.id, rq.casFaulted)
		} else if rq.code != 500 && rq.code != want {
			o.v("C14", "status", "r%d (%s, faulted): got %d", rq.id, rq.defect, rq.code)
		}
		return
	}
	if rq.code != want {
		o.v("C14", "status", "r%d: request with defect %q (old=%d new=%d recorded=%d) answered %d, want %d", rq.id, rq.defect, rq.old, rq.n, rq.rec0N, rq.code, want)
	}
	switch rq.code {
	case 409:
		if strings.TrimSpace(string(rq.resp)) != strconv.FormatInt(rq.rec0N, 10) || rq.hdr.Get("Content-Type") != "text/x.tlog.size" {
			o.v("C14", "conflict-body", "r%d: 409 body %q / content type %q, recorded size is %d", rq.id, rq.resp, rq.hdr.Get("Content-Type"), rq.rec0N)
		}
	case 200:
		o.check200(rq)
	}
}

// check200: what a 200 answer to add-checkpoint must be.
func (o *oracle) check200(rq *request) {
	w := o.w
	g := rq.g
	root := g.root(rq.branch, rq.n)
	text := ckptText(g.origin, rq.n, root, "")
	// only cosignature lines by the witness's keys, verifying over the re-encoded checkpoint
	for _, l := range strings.SplitAfter(string(rq.resp), "\n") {
		if l != "" && !strings.HasPrefix(l, "— "+witnessName+" ") {
			o.v("C14", "response-lines", "r%d: response contains a line that is no witness cosignature: %q", rq.id, l)
		}
	}
	n, err := note.Open([]byte(text+"\n"+string(rq.resp)), note.VerifierList(o.v1, o.v2))
	if err != nil || len(n.Sigs) != 2 || len(n.UnverifiedSigs) != 0 {
		o.v("C14", "response-signatures", "r%d: response is not exactly the two verifying witness cosignatures over (%s,%d,%s): %v", rq.id, g.origin, rq.n, root, err)
		return
	}
	// durably recorded before release
	found := false
	for _, c := range o.wit[g.origin] {
		if c.n == rq.n && c.root == root && c.step <= w.sim.Step {
			found = true
		}
	}
	if !found {
		o.v("C14", "released-before-recorded", "r%d: cosignature for size %d released but no such checkpoint was committed to the lock store", rq.id, rq.n)
	}
	// ... and "recorded" means these very cosignature lines: what is released is
	// what the lock store was given, not a fresh signature over a tree that
	// happens to be on record
	for _, l := range strings.SplitAfter(string(rq.resp), "\n") {
		if l == "" {
			continue
		}
		stored := false
		for _, c := range o.wit[g.origin] {
			stored = stored || bytes.Contains(c.raw, []byte(l))
		}
		if !stored {
			o.v("C14", "released-not-recorded", "r%d: a released cosignature line for size %d is in no value ever committed to the lock store", rq.id, rq.n)
			break
		}
	}
	curN, _, _ := w.recorded(g)
	if curN < rq.n {
		o.v("C14", "released-before-recorded", "r%d: cosignature for size %d released while the lock store holds size %d", rq.id, rq.n, curN)
	}
	lines := strings.SplitAfter(string(rq.resp), "\n")
	cs := &cosigned{g: g, branch: rq.branch, n: rq.n, text: text}
	_, ll := splitSigLines(g.signedCheckpoint(rq.branch, rq.n, g.signer, ""))
	cs.logSig = ll[0]
	for _, l := range lines {
		if l == "" {
			continue
		}
		raw, _ := base64.StdEncoding.DecodeString(strings.TrimSuffix(strings.SplitN(l, " ", 3)[2], "\n"))
		if len(raw) > 4 && uint32(raw[0])<<24|uint32(raw[1])<<16|uint32(raw[2])<<8|uint32(raw[3]) == o.v1.KeyHash() {
			cs.w1 = l
		} else {
			cs.w2 = l
		}
	}
	w.cosigned = append(w.cosigned, cs)
}

func (o *oracle) respAddEntries(rq *request) {
	w := o.w
	g := rq.g
	w.sim.Probe(fmt.Sprintf("resp.addentries.%d", rq.code))
	if (rq.code == 409 || rq.code == 202) && rq.hdr.Get("Content-Type") == "text/x.tlog.mirror-info" {
		lines := strings.Split(string(rq.resp), "\n")
		if len(lines) >= 3 {
			if t, err := base64.StdEncoding.DecodeString(lines[2]); err == nil && len(t) > 0 {
				n, _ := strconv.ParseInt(lines[0], 10, 64)
				w.tickets = append(w.tickets, ticketRec{inc: rq.inc, origin: g.origin, ticket: t, n: n})
			}
			next, err := strconv.ParseInt(lines[1], 10, 64)
			recN, _, _ := w.recorded(g)
			if err != nil || next < 0 || next > recN {
				o.v("C15", "mirror-info", "r%d: mirror-info next entry %q beyond the pending checkpoint %d", rq.id, lines[1], recN)
			}
		}
	}
	if rq.code != 200 {
		return
	}
	// 200: only mirror cosignature lines, over a checkpoint the storage serves
	for _, l := range strings.SplitAfter(string(rq.resp), "\n") {
		if l != "" && !strings.HasPrefix(l, "— "+mirrorName+" ") {
			o.v("C15", "response-lines", "r%d: add-entries response contains a line that is no mirror cosignature: %q", rq.id, l)
		}
	}
	// which checkpoint? the one of size rq.end on the branch
	var match *commitRec
	for _, c := range o.mir[g.origin] {
		text := ckptText(g.origin, c.n, c.root, "")
		if n, err := note.Open([]byte(text+"\n"+string(rq.resp)), note.VerifierList(o.vm)); err == nil && len(n.Sigs) == 1 && len(n.UnverifiedSigs) == 0 {
			match = c
		}
	}
	if match == nil {
		o.v("C15", "response-signatures", "r%d: mirror cosignature does not verify over any checkpoint committed to the lock store", rq.id)
		return
	}
	if rq.faulted && match.req == rq && false {
		return
	}
	o.checkServable(g, match.n, match.root, fmt.Sprintf("200 to r%d", rq.id))
	if rq.defect == "wrong-entry" || rq.defect == "wrong-proof" {
		if match.req == rq {
			o.v("C15", "bad-upload-accepted", "r%d: upload with %s was accepted and signed", rq.id, rq.defect)
		}
	}
	// remember for sign-subtree
	lines := strings.SplitAfter(string(rq.resp), "\n")
	for _, c := range w.cosigned {
		if c.g == g && c.n == match.n && ref.Hash(g.root(c.branch, c.n)) == match.root && c.m == "" {
			c.m = lines[0]
		}
	}
}

func (o *oracle) respSubtree(rq *request) {
	w := o.w
	g := rq.g
	w.sim.Probe(fmt.Sprintf("resp.subtree.%d", rq.code))
	validRange := ref.ValidSubtree(rq.subStart, rq.subEnd) && rq.subEnd <= rq.n
	correct := validRange && tlog.Hash(g.tree[rq.branch].SubtreeHash(rq.subStart, rq.subEnd)) == rq.subHash
	var lines []string
	if rq.code == 200 {
		for _, l := range strings.SplitAfter(string(rq.resp), "\n") {
			if l != "" {
				lines = append(lines, l)
			}
		}
	}
	if len(lines) > 0 && !correct {
		o.v("C16", "signed-wrong-subtree", "r%d: signature returned for [%d,%d) of size %d with defect %q", rq.id, rq.subStart, rq.subEnd, rq.n, rq.defect)
		return
	}
	got := map[string]bool{}
	for _, l := range lines {
		ok := false
		if o.v2.(*torchwood.CosignatureVerifier).VerifySubtree(g.origin, rq.subStart, rq.subEnd, rq.subHash, []byte(l)) {
			got[witnessName] = true
			ok = true
		}
		if o.vm != nil && o.vm.(*torchwood.CosignatureVerifier).VerifySubtree(g.origin, rq.subStart, rq.subEnd, rq.subHash, []byte(l)) {
			got[mirrorName] = true
			ok = true
		}
		if !ok {
			o.v("C16", "signature-invalid", "r%d: returned line does not verify as a subtree cosignature by an own ML-DSA key: %q", rq.id, l[:min(len(l), 60)])
		}
	}
	for name := range got {
		if !rq.subSigners[name] {
			o.v("C16", "signer-not-on-checkpoint", "r%d: %s signed the subtree although its cosignature is not on the presented checkpoint", rq.id, name)
		}
	}
	if correct && rq.defect == "" && rq.code == 200 {
		for name := range rq.subSigners {
			if !got[name] {
				o.v("C16", "signer-missing", "r%d: %s has a valid cosignature on the checkpoint but did not sign the subtree", rq.id, name)
			}
		}
		if len(rq.subSigners) > 0 {
			w.sim.Probe("subtree.signed")
			if len(w.signedHeaders) < 16 {
				w.signedHeaders = append(w.signedHeaders, signedHeader{rq.subStart, rq.subEnd, rq.subHash, rq.subProof})
			}
		}
	}
}

// ---------------------------------------------------------------------------
// epilogue

func (w *World) epilogue() {
	o := w.orc
	// after a restart, uploads resume from the mirror checkpoint
	if w.prof.Mirror && w.prof.Prop == "C15" {
		g := w.logs[0]
		w.crash()
		w.restarts--
		w.startWitness()
		recN, recRoot, _ := w.recorded(g)
		mirN, _, _ := w.mirrored(g)
		bs := g.branchesOf(recN, recRoot)
		if recN > 0 && mirN < recN && len(bs) > 0 {
			rq := &request{id: len(w.reqs), g: g, inc: w.inc.n, kind: "addentries", branch: bs[0], start: mirN, end: recN, startStep: w.sim.Step}
			w.reqs = append(w.reqs, rq)
			w.auto = true
			rq.segs = g.addEntriesSegments(bs[0], mirN, recN, nil, -1, "")
			w.serveSync(rq)
			w.auto = false
			if rq.code != 200 {
				o.v("C15", "resume-refused", "after a restart, an upload of [%d,%d) starting at the mirror checkpoint was answered %d %q", mirN, recN, rq.code, clip(string(rq.resp)))
			} else {
				w.sim.Probe("resume.ok")
				o.respAddEntries(rq)
			}
		}
	}
	// final: the last mirror checkpoint is servable
	for _, g := range w.logs {
		if h := o.mir[g.origin]; len(h) > 0 {
			last := h[len(h)-1]
			o.checkServable(g, last.n, last.root, "final")
		}
	}
}

func clip(s string) string {
	if len(s) > 120 {
		return s[:120]
	}
	return s
}

var _ = core.OutOK
var _ = synctest.Wait
