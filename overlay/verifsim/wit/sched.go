package wit

import (
	"bytes"
	"context"
	"crypto/ed25519"
	"encoding/base64"
	"encoding/json"
	"fmt"
	"io"
	"log/slog"
	"net/http"
	"net/http/httptest"
	"os"
	"path/filepath"
	"runtime/debug"
	"strings"
	"testing"
	"testing/synctest"
	"time"

	"filippo.io/mldsa"
	"filippo.io/sunlight/internal/verifsim/core"
	"filippo.io/sunlight/internal/witness"
	"filippo.io/torchwood"
	"golang.org/x/mod/sumdb/tlog"
)

type Profile struct {
	Prop     string `json:"prop"`
	Tag      string `json:"tag"`
	Origins  int    `json:"origins"`
	Mirror   bool   `json:"mirror"`
	// MirrorAll: every log is mirrored, not only the first (state shared across
	// logs inside the witness would show)
	MirrorAll bool `json:"mirror_all,omitempty"`
	LogSize  int64  `json:"log_size"`
	ForkAt   int64  `json:"fork_at"`
	Reqs     int    `json:"reqs"`
	Conc     int    `json:"conc"`
	FaultW   int    `json:"fault_w"`
	RestartW int    `json:"restart_w"`
	MaxRestarts int `json:"max_restarts"`
	DefectPct int   `json:"defect_pct"`
	Subtree  bool   `json:"subtree"`
	Script   bool   `json:"script,omitempty"` // start with the scripted cut-tile scenario
	TwoW     bool   `json:"two_witnesses,omitempty"` // a second witness process with the same keys on the same lock store
	Steps    int    `json:"steps"`
}

func MakeProfile(prop string, seed uint64, tier string) *Profile {
	r := core.NewRand(core.Mix(seed, 0x3175))
	p := &Profile{Prop: prop, Origins: 1 + r.Intn(2), Steps: 300 + r.Intn(300)}
	p.LogSize = []int64{5, 20, 255, 256, 257, 300, 513, 700}[r.Intn(8)]
	p.ForkAt = int64(r.Intn(int(p.LogSize)))
	p.Reqs = 8 + r.Intn(25)
	p.Conc = 1 + r.Intn(3)
	p.DefectPct = []int{10, 30, 50}[r.Intn(3)]
	p.Tag = "faultfree"
	if r.Chance(2, 3) {
		p.Tag = "faults"
		if r.Chance(2, 3) {
			p.FaultW = []int{3, 10}[r.Intn(2)]
		}
		if r.Chance(1, 2) {
			p.RestartW = []int{2, 5}[r.Intn(2)]
			p.MaxRestarts = 1 + r.Intn(4)
		}
	}
	switch prop {
	case "C14":
		p.Mirror = r.Chance(1, 4)
		if r.Chance(1, 3) {
			p.TwoW = true
			p.Tag += "+2w"
		}
	case "C15":
		p.Mirror = true
		p.Conc = 1 + r.Intn(4)
		p.DefectPct = []int{30, 50}[r.Intn(2)]
		p.LogSize = []int64{20, 257, 300, 513, 700, 700, 1100, 1100}[r.Intn(8)]
		p.ForkAt = int64(r.Intn(int(p.LogSize)))
		p.Reqs = 15 + r.Intn(30)
		p.Script = p.LogSize >= 300 && r.Chance(1, 3)
		if p.Origins > 1 && r.Chance(1, 2) {
			p.MirrorAll = true
			p.Tag += "+mirrorall"
		}
		if !p.Script && r.Chance(1, 4) {
			p.TwoW = true
			p.Tag += "+2w"
		}
	case "C16":
		p.Mirror = r.Chance(2, 3)
		p.Subtree = true
		p.LogSize = []int64{5, 20, 64, 255, 256, 300}[r.Intn(6)]
		p.ForkAt = int64(r.Intn(int(p.LogSize)))
	}
	return p
}

func (p *Profile) JSON() json.RawMessage { b, _ := json.Marshal(p); return b }

func ProfileFromJSON(b []byte) (*Profile, error) {
	p := &Profile{}
	return p, json.Unmarshal(b, p)
}

var lastTrace []core.Cmd

var discard = slog.New(slog.NewTextHandler(io.Discard, nil))

const (
	witnessName = "witness.example/w1"
	mirrorName  = "mirror.example/m1"
)

func tmpRoot() string {
	if d := os.Getenv("VERIF_TMP"); d != "" {
		return d
	}
	if fi, err := os.Stat("/dev/shm"); err == nil && fi.IsDir() {
		return "/dev/shm"
	}
	return os.TempDir()
}

func Run(t *testing.T, seed uint64, prof *Profile, replay []core.Cmd, keepLog bool) *core.RunResult {
	start := time.Now()
	sim := core.NewSim(seed)
	sim.KeepLog(keepLog)
	tmp, err := os.MkdirTemp(tmpRoot(), "witsim-")
	if err != nil {
		return &core.RunResult{Seed: seed, Infra: err.Error()}
	}
	defer os.RemoveAll(tmp)
	w := &World{sim: sim, prof: prof, tmp: tmp, objs: map[string]*obj{}, lock: map[[32]byte][]byte{}, reqOfOp: map[string]*request{}}
	w.orc = newOracle(w)
	var infra string
	func() {
		defer func() {
			if r := recover(); r != nil {
				s := fmt.Sprint(r)
				if strings.Contains(s, "deadlock: main bubble goroutine has exited") {
					return
				}
				infra = "panic: " + s + "\n" + string(debug.Stack())
			}
		}()
		synctest.Test(t, func(t *testing.T) {
			defer func() {
				if r := recover(); r != nil {
					infra = "panic in bubble: " + fmt.Sprint(r) + "\n" + string(debug.Stack())
				}
			}()
			w.main(replay)
		})
	}()
	lastTrace = sim.Trace
	res := &core.RunResult{Seed: seed, Profile: prof.JSON(), ProfileTag: prof.Tag, Steps: sim.Step,
		LogHash: sim.LogHash(), SchedHash: core.SchedHash(sim.Trace), Faults: core.FaultCounts(sim.Trace),
		Probes: sim.Probes, Violations: sim.Viol, Infra: infra, WallMicros: time.Since(start).Microseconds()}
	res.Nontrivial = len(res.Faults) > 0 || sim.Probes["concurrent.requests"] > 0 || sim.Probes["fault.plan"] > 0
	if keepLog {
		res.Sample = sim.Log()
	}
	return res
}

func (w *World) witnessConfig(inc *incarnation) *witness.Config {
	mk := func(label string) *mldsa.PrivateKey {
		k, err := mldsa.NewPrivateKey(mldsa.MLDSA44(), hash32(label))
		if err != nil {
			panic(err)
		}
		return k
	}
	c := &witness.Config{
		Name:       witnessName,
		KeyEd25519: ed25519.NewKeyFromSeed(hash32("witness ed25519")),
		KeyMLDSA44: mk("witness mldsa"),
		Backend:    &backendH{inc: inc},
		Lock:       &lockH{inc: inc},
		Log:        discard,
	}
	if w.prof.Mirror {
		c.MirrorName = mirrorName
		c.KeyMirror = mk("mirror mldsa")
	}
	return c
}

// startWitness creates a new witness process on the surviving lock store.
func (w *World) startWitness() {
	inc := w.newIncarnation()
	w.inc = inc
	w.orc.onStart(inc)
	w.sim.Logf("witness incarnation %d started", inc.n)
}

// newIncarnation starts a witness process on the surviving lock store.
func (w *World) newIncarnation() *incarnation {
	w.incN++
	inc := &incarnation{w: w, n: w.incN}
	inc.cfg = w.witnessConfig(inc)
	prevAuto := w.auto
	w.auto = true
	wt, err := witness.NewWitness(context.Background(), inc.cfg)
	if err != nil {
		panic("NewWitness: " + err.Error())
	}
	inc.wit = wt
	// (re-)pull the log lists: idempotent, as at every start of cmd/sunlight
	var plain, mirrored strings.Builder
	plain.WriteString("logs/v0\n")
	mirrored.WriteString("logs/v0\n")
	for i, g := range w.logs {
		if w.prof.Mirror && (i == 0 || w.prof.MirrorAll) {
			fmt.Fprintf(&mirrored, "vkey %s\n", g.vkey)
		} else {
			fmt.Fprintf(&plain, "vkey %s\n", g.vkey)
		}
	}
	pl := filepath.Join(w.tmp, "logs.txt")
	os.WriteFile(pl, []byte(plain.String()), 0o644)
	if err := wt.PullLogList(context.Background(), pl, false); err != nil {
		panic("PullLogList: " + err.Error())
	}
	if w.prof.Mirror {
		ml := filepath.Join(w.tmp, "mirror.txt")
		os.WriteFile(ml, []byte(mirrored.String()), 0o644)
		if err := wt.PullLogList(context.Background(), ml, true); err != nil {
			panic("PullLogList mirror: " + err.Error())
		}
	}
	w.auto = prevAuto
	return inc
}

func (w *World) main(replay []core.Cmd) {
	p := w.prof
	sim := w.sim
	for i := 0; i < p.Origins; i++ {
		w.logs = append(w.logs, newGlog(fmt.Sprintf("log%d.example/x", i), p.LogSize, p.ForkAt, sim.Seed))
	}
	w.startWitness()
	if p.Script {
		w.scriptCutTile()
	}
	ri := 0
	for sim.Step < p.Steps {
		synctest.Wait()
		w.quiesce()
		var cmd core.Cmd
		if replay != nil {
			if ri >= len(replay) {
				break
			}
			cmd = replay[ri]
			ri++
		} else {
			en := w.enabled()
			if len(en) == 0 {
				break
			}
			cmd = sim.Choose(en)
		}
		if w.exec(cmd) {
			sim.Trace = append(sim.Trace, cmd)
			sim.Logf("cmd %s", cmd.String())
			sim.Step++
		}
	}
	// drain: no more faults, everything in flight completes
	for i := 0; i < 3000; i++ {
		synctest.Wait()
		w.quiesce()
		ops := w.liveParked()
		if len(ops) == 0 {
			break
		}
		w.release(ops[0], core.OutOK, nil)
	}
	synctest.Wait()
	w.quiesce()
	w.epilogue()
}

func (w *World) liveParked() []*core.Op {
	var out []*core.Op
	for _, op := range w.sim.Parked() {
		if op.Inc == w.inc.n && !w.inc.dead {
			out = append(out, op)
		}
	}
	return out
}

func (w *World) inflight() int {
	n := 0
	for _, r := range w.reqs {
		if !r.done && r.inc == w.inc.n {
			n++
		}
	}
	return n
}

func (w *World) drawPlan() []int {
	p := w.prof
	r := w.sim.Rng
	if p.FaultW == 0 || !r.Chance(p.FaultW, 40) {
		return nil
	}
	var l []int
	for i := 0; i < 5; i++ {
		v := 0
		if r.Chance(1, 3) {
			v = 1 + r.Intn(2)
			if p.RestartW > 0 && w.restarts < p.MaxRestarts && r.Chance(1, 6) {
				v = 3
			}
		}
		l = append(l, v)
	}
	return l
}

func (w *World) enabled() []core.WCmd {
	p := w.prof
	r := w.sim.Rng
	var out []core.WCmd
	parked := w.liveParked()
	for _, op := range parked {
		out = append(out, core.WCmd{Cmd: core.Cmd{A: "rel", Op: op.ID, Out: core.OutOK, L: w.drawPlan()}, W: 100})
		if p.FaultW > 0 {
			if op.Kind == "body" {
				out = append(out, core.WCmd{Cmd: core.Cmd{A: "rel", Op: op.ID, Out: "cut", N: int64(r.Intn(4000))}, W: p.FaultW * 6})
			} else {
				out = append(out, core.WCmd{Cmd: core.Cmd{A: "rel", Op: op.ID, Out: core.OutErrNot}, W: p.FaultW})
				if op.Mut {
					out = append(out, core.WCmd{Cmd: core.Cmd{A: "rel", Op: op.ID, Out: core.OutErrApplied}, W: p.FaultW})
				}
			}
		}
	}
	inflight := w.inflight()
	if inflight >= 2 {
		w.sim.Probe("concurrent.requests")
	}
	if len(w.reqs) < p.Reqs && inflight < p.Conc && !w.inc.dead {
		wt := 40
		if len(parked) == 0 {
			wt = 100
		}
		out = append(out, core.WCmd{Cmd: core.Cmd{A: "req", N: int64(r.Uint64() >> 1), L: w.drawPlan()}, W: wt})
	}
	if p.RestartW > 0 && w.restarts < p.MaxRestarts {
		out = append(out, core.WCmd{Cmd: core.Cmd{A: "restart"}, W: p.RestartW})
	}
	if p.TwoW && len(w.reqs) < p.Reqs {
		if w.shadow == nil {
			out = append(out, core.WCmd{Cmd: core.Cmd{A: "spawn2"}, W: 10})
		} else {
			out = append(out, core.WCmd{Cmd: core.Cmd{A: "kill2"}, W: 2})
			out = append(out, core.WCmd{Cmd: core.Cmd{A: "req2", N: int64(r.Uint64() >> 1), L: w.drawPlan()}, W: 40})
		}
	}
	return out
}

func (w *World) release(op *core.Op, out string, plan []int) {
	pp, isBackend := op.Payload.(*pendingOp)
	w.plan, w.planPos = plan, 0
	if rq, ok := op.Payload.(*segReader); ok {
		w.curReq = rq.req
	} else {
		w.curReq = w.reqOfOp[op.ID]
	}
	if isBackend {
		o := out
		if !op.Mut && o == core.OutErrApplied {
			o = core.OutErrNot
		}
		w.apply(w.inc, op.Kind, op.Key, pp, o != core.OutErrNot)
		if o != core.OutOK {
			pp.res = opResult{err: fmt.Errorf("%w (%s %s)", errInjected, op.Kind, op.Key)}
			w.sim.Probe("fault." + o + "." + op.Kind)
			if w.curReq != nil {
				w.curReq.faulted = true
			}
		}
	}
	w.sim.Release(op, out)
}

func (w *World) exec(c core.Cmd) bool {
	switch c.A {
	case "rel":
		op := w.sim.ParkedOp(c.Op)
		if op == nil || op.Inc != w.inc.n || w.inc.dead {
			return false
		}
		if op.Kind == "body" {
			if sr, ok := op.Payload.(*segReader); ok && c.Out == "cut" {
				sr.cutExtra = int(c.N)
				sr.req.faulted = true
				w.sim.Probe("fault.body.cut")
			}
		}
		if len(c.L) > 0 {
			w.sim.Probe("fault.plan")
		}
		w.release(op, c.Out, c.L)
		return true
	case "req":
		if w.inc.dead || w.inflight() >= w.prof.Conc+2 {
			return false
		}
		if len(c.L) > 0 {
			w.sim.Probe("fault.plan")
		}
		w.startRequest(uint64(c.N), c.L)
		return true
	case "spawn2":
		if w.shadow != nil || !w.prof.TwoW {
			return false
		}
		w.shadow = w.newIncarnation()
		w.sim.Probe("shadow.spawn")
		return true
	case "kill2":
		if w.shadow == nil {
			return false
		}
		w.shadow.dead = true
		w.shadow = nil
		return true
	case "req2":
		if w.shadow == nil || w.shadow.dead {
			return false
		}
		w.shadowRequest(uint64(c.N), c.L)
		return true
	case "restart":
		if w.restarts >= w.prof.MaxRestarts+4 {
			return false
		}
		w.crash()
		w.startWitness()
		return true
	}
	return false
}

// crash kills the current witness process: in-flight requests never complete;
// in-flight mutating operations are lost.
func (w *World) crash() {
	for _, op := range w.sim.Parked() {
		if op.Inc == w.inc.n {
			w.sim.Forget(op)
		}
	}
	w.inc.dead = true
	w.restarts++
	w.sim.Probe("crash")
	w.sim.Logf("witness incarnation %d crashed", w.inc.n)
}

func (w *World) quiesce() {
	w.flushNotes()
	if w.inc.crashPending {
		w.inc.crashPending = false
		w.crash()
		w.startWitness()
	}
	w.notesMu.Lock()
	done := w.doneQ
	w.doneQ = nil
	w.notesMu.Unlock()
	for _, r := range done {
		if r.shadow {
			w.orc.onResponse(r)
			continue
		}
		if r.inc != w.inc.n || w.inc.dead {
			continue // response of a dead process does not exist
		}
		w.orc.onResponse(r)
	}
}

// ---------------------------------------------------------------------------
// requests

type signedHeader struct {
	s, e  int64
	h     tlog.Hash
	proof torchwood.SubtreeProof
}

type request struct {
	subProof torchwood.SubtreeProof
	id     int
	kind   string // addckpt | addentries | subtree
	g      *glog
	inc    int
	defect string
	branch int
	old, n int64
	start, end int64
	body   []byte
	segs   [][]byte
	gz     bool
	// subtree
	subStart, subEnd int64
	subHash          tlog.Hash
	subSigners       map[string]bool // names of own signers whose cosignature is on the presented checkpoint
	// model state at start
	rec0N    int64
	rec0Root [32]byte
	mir0N    int64
	startStep int
	// response
	done     bool
	code     int
	hdr      http.Header
	resp     []byte
	faulted  bool
	casFaulted bool
	truncated bool
	shadow    bool
}

type segReader struct {
	w    *World
	req  *request
	segs [][]byte
	i    int
	cur  []byte
	// cutExtra >= 0: after the scheduler cut the body, this many more bytes of
	// the next segment are delivered and then the body ends.
	cutExtra int
	cut      bool
	// cutAfterSeg >= 1: the body ends by itself after that many package segments
	cutAfterSeg int
}

func (r *segReader) Read(p []byte) (int, error) {
	if len(r.cur) == 0 {
		if r.cutAfterSeg >= 1 && r.i == 1+r.cutAfterSeg {
			r.cut = true
			r.req.truncated = true
		}
		if r.cut || r.i >= len(r.segs) {
			if r.cut {
				return 0, io.ErrUnexpectedEOF
			}
			return 0, io.EOF
		}
		if r.i > 0 && !r.w.auto {
			op := &core.Op{ID: r.w.sim.NewOpID(1, r.req.inc, "body", fmt.Sprintf("r%d.seg%d", r.req.id, r.i)),
				Inst: 1, Inc: r.req.inc, Kind: "body", Key: fmt.Sprintf("r%d", r.req.id), Payload: r}
			out := r.w.sim.Park(op)
			if out == "cut" {
				r.cut = true
				seg := r.segs[r.i]
				k := r.cutExtra % (len(seg) + 1)
				r.cur = seg[:k]
				r.i = len(r.segs)
				r.req.truncated = true
				if len(r.cur) == 0 {
					return 0, io.ErrUnexpectedEOF
				}
			}
		}
		if !r.cut {
			r.cur = r.segs[r.i]
			r.i++
		}
	}
	n := copy(p, r.cur)
	r.cur = r.cur[n:]
	return n, nil
}

func (r *segReader) Close() error { return nil }

func (w *World) serve(rq *request, hreq *http.Request) {
	inc := w.inc
	if rq.shadow {
		inc = w.shadow
	}
	h := inc.wit.Handler()
	go func() {
		rec := httptest.NewRecorder()
		h.ServeHTTP(rec, hreq)
		if inc.dead {
			select {}
		}
		rq.done = true
		rq.code = rec.Code
		rq.hdr = rec.Header()
		rq.resp = rec.Body.Bytes()
		w.note("resp r%d %s %s -> %d", rq.id, rq.kind, rq.defect, rq.code)
		w.notesMu.Lock()
		w.doneQ = append(w.doneQ, rq)
		w.notesMu.Unlock()
	}()
	synctest.Wait()
	// attribute operations parked by this request
	for _, op := range w.sim.Parked() {
		if _, ok := w.reqOfOp[op.ID]; !ok {
			w.reqOfOp[op.ID] = rq
		}
	}
}

var _ = bytes.Equal
var _ = base64.StdEncoding

// serveSync serves a request to completion without scheduling (auto mode).
func (w *World) serveSync(rq *request) {
	body := &segReader{w: w, req: rq, segs: rq.segs, cutAfterSeg: -1}
	hreq := httptest.NewRequest("POST", "/add-entries", body)
	hreq.Header.Set("Content-Type", "application/octet-stream")
	rec := httptest.NewRecorder()
	w.curReq = rq
	w.inc.wit.Handler().ServeHTTP(rec, hreq)
	rq.done = true
	rq.code = rec.Code
	rq.hdr = rec.Header()
	rq.resp = rec.Body.Bytes()
}

// scriptCutTile drives, without scheduling, the history that makes the mirror
// commit at a size that cuts a tile which was only uploaded wider: a ticket for
// size n1, the pending checkpoint moved on to n2 in the same tile, a complete
// upload to n2 whose commit fails, then an empty upload with the old ticket.
// The serving invariant is checked by the ordinary monitors.
func (w *World) scriptCutTile() {
	g := w.logs[0]
	r := core.NewRand(core.Mix(w.sim.Seed, 0x5c71))
	tile := int64(r.Intn(int(g.size()/256) + 1))
	lo := tile*256 + 1
	hi := min(tile*256+255, g.size())
	if hi-lo < 2 {
		return
	}
	n1 := lo + int64(r.Intn(int(hi-lo-1)))
	n2 := n1 + 1 + int64(r.Intn(int(hi-n1)))
	w.auto = true
	defer func() { w.auto = false }()
	do := func(rq *request, path string, body io.ReadCloser, ctype string) {
		rq.id, rq.g, rq.inc, rq.startStep = len(w.reqs), g, w.inc.n, w.sim.Step
		w.reqs = append(w.reqs, rq)
		w.curReq = rq
		hreq := httptest.NewRequest("POST", path, body)
		if ctype != "" {
			hreq.Header.Set("Content-Type", ctype)
		}
		rec := httptest.NewRecorder()
		w.inc.wit.Handler().ServeHTTP(rec, hreq)
		rq.done, rq.code, rq.hdr, rq.resp = true, rec.Code, rec.Header(), rec.Body.Bytes()
		w.sim.Logf("script r%d %s -> %d", rq.id, rq.kind, rq.code)
		w.orc.onResponse(rq)
	}
	ckpt := func(old, n int64) *request {
		rq := &request{kind: "addckpt", branch: 0, old: old, n: n, rec0N: old, rec0Root: g.root(0, old)}
		body := addCheckpointBody(fmt.Sprintf("old %d", old), g.consistencyProof(0, old, n), g.signedCheckpoint(0, n, g.signer, ""))
		do(rq, "/add-checkpoint", io.NopCloser(bytes.NewReader(body)), "")
		return rq
	}
	entries := func(start, end int64, ticket []byte, defect string) *request {
		rq := &request{kind: "addentries", branch: 0, start: start, end: end, defect: defect}
		rq.segs = g.addEntriesSegments(0, start, end, ticket, -1, "")
		do(rq, "/add-entries", &segReader{w: w, req: rq, segs: rq.segs, cutAfterSeg: -1}, "application/octet-stream")
		return rq
	}
	if ckpt(0, n1).code != 200 {
		return
	}
	before := len(w.tickets)
	entries(min(n1, 1), n1, nil, "start-ahead") // start ahead of the frontier (0): 409 with a ticket for n1
	if len(w.tickets) == before {
		return
	}
	ticket := w.tickets[len(w.tickets)-1]
	if ticket.n != n1 {
		return
	}
	// sometimes a first upload to n1 dies on the partial data tile (or on the
	// partial hash tile) of its last package: nothing of that package may later
	// be taken for complete
	if v := r.Intn(3); v > 0 {
		part := "/tile/entries/"
		if v == 2 {
			part = "/tile/0/"
		}
		w.failUploadMatch = func(key string) bool {
			return strings.Contains(key, part) && strings.Contains(key, ".p/")
		}
		up0 := entries(0, n1, nil, "")
		up0.faulted = true
		if w.failUploadMatch == nil {
			w.sim.Probe("script.partial-upload-failed")
		}
		w.failUploadMatch = nil
	}
	if ckpt(n1, n2).code != 200 {
		return
	}
	w.failNextMirrorCommit = true
	up := entries(0, n2, nil, "")
	up.faulted = true
	if w.failNextMirrorCommit {
		w.failNextMirrorCommit = false
		return
	}
	w.sim.Probe("script.cut-tile")
	// the commit at n1 has to cut the tile that holds n1 out of the wider one:
	// plainly, or with the first or second of its uploads failing and a retry
	if v := r.Intn(3); v > 0 {
		w.failUploadAt = v
		entries(n1, n1, ticket.ticket, "ticket-cut")
		if w.failUploadAt == 0 {
			w.sim.Probe("script.cut-tile.retry")
		}
		w.failUploadAt = 0
	}
	entries(n1, n1, ticket.ticket, "ticket-cut")
}

// shadowRequest sends an add-checkpoint request to the second witness process.
// All its lock/storage calls happen under its per-log mutex, so it runs to
// completion within the step. Its view of the recorded state may be stale, so
// only the safety clauses of the oracle apply to it (and, from then on, to the
// primary, whose cache it invalidates).
func (w *World) shadowRequest(rseed uint64, plan []int) {
	r := core.NewRand(core.Mix(w.sim.Seed, rseed))
	g := w.logs[r.Intn(len(w.logs))]
	rq := &request{id: len(w.reqs), g: g, inc: w.shadow.n, startStep: w.sim.Step, kind: "addckpt", shadow: true}
	w.reqs = append(w.reqs, rq)
	w.plan, w.planPos = plan, 0
	w.curReq = rq
	recN, recRoot, _ := w.recorded(g)
	rq.rec0N, rq.rec0Root = recN, recRoot
	// sometimes build the request against an older recorded size (what a client
	// of a stale witness would send)
	if hist := w.orc.wit[g.origin]; len(hist) > 1 && r.Chance(1, 3) {
		old := hist[r.Intn(len(hist))]
		rq.rec0N, rq.rec0Root = old.n, old.root
	}
	w.shadowUsed = true
	primary := w.inc
	w.inc = w.shadow
	if w.prof.Prop == "C15" && w.prof.Mirror && (g == w.logs[0] || w.prof.MirrorAll) && rq.rec0N > 0 && r.Chance(3, 5) {
		// an upload to the second process, served to completion within the step
		// (its storage operations are applied as they are issued)
		rq.kind = "addentries"
		prevAuto := w.auto
		w.auto = true
		w.genAddEntries(rq, r)
		synctest.Wait()
		w.auto = prevAuto
		w.sim.Probe("shadow.addentries")
	} else {
		w.genAddCheckpoint(rq, r)
	}
	w.inc = primary
	w.sim.Probe("shadow.request")
}
