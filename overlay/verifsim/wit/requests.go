package wit

import (
	"bytes"
	"compress/gzip"
	"encoding/base64"
	"fmt"
	"io"
	"net/http"
	"net/http/httptest"
	"strings"

	"filippo.io/mldsa"
	"filippo.io/sunlight/internal/verifsim/core"
	"filippo.io/sunlight/internal/verifsim/ref"
	"filippo.io/sunlight/internal/witness"
	"filippo.io/torchwood"
	"golang.org/x/mod/sumdb/note"
	"golang.org/x/mod/sumdb/tlog"
)

// recorded returns what the lock store currently holds for an origin's
// witness checkpoint (size 0 and the empty root if nothing was cosigned yet).
func (w *World) recorded(g *glog) (n int64, root ref.Hash, raw []byte) {
	ck, _, _ := witness.VerifLockKeys(w.inc.cfg, g.origin)
	raw = w.lock[ck]
	if len(raw) == 0 {
		return 0, ref.EmptyRoot(), nil
	}
	nt, err := ref.ParseNote(raw)
	if err != nil {
		return -1, ref.Hash{}, raw
	}
	c, err := ref.ParseCheckpointText(nt.Text)
	if err != nil {
		return -1, ref.Hash{}, raw
	}
	return c.Size, c.Root, raw
}

func (w *World) mirrored(g *glog) (n int64, root ref.Hash, raw []byte) {
	_, mk, _ := witness.VerifLockKeys(w.inc.cfg, g.origin)
	raw = w.lock[mk]
	if len(raw) == 0 {
		return 0, ref.EmptyRoot(), nil
	}
	nt, err := ref.ParseNote(raw)
	if err != nil {
		return -1, ref.Hash{}, raw
	}
	c, err := ref.ParseCheckpointText(nt.Text)
	if err != nil {
		return -1, ref.Hash{}, raw
	}
	return c.Size, c.Root, raw
}

// startRequest generates the next request from the model state and a request
// seed, and starts serving it.
func (w *World) startRequest(rseed uint64, plan []int) {
	p := w.prof
	r := core.NewRand(core.Mix(w.sim.Seed, rseed))
	g := w.logs[r.Intn(len(w.logs))]
	rq := &request{id: len(w.reqs), g: g, inc: w.inc.n, startStep: w.sim.Step}
	w.reqs = append(w.reqs, rq)
	w.plan, w.planPos = plan, 0
	w.curReq = rq
	recN, recRoot, _ := w.recorded(g)
	rq.rec0N, rq.rec0Root = recN, recRoot
	mirroredLog := p.Mirror && (g == w.logs[0] || p.MirrorAll)
	kind := "addckpt"
	if mirroredLog && recN > 0 && r.Chance(3, 5) {
		kind = "addentries"
	}
	if p.Subtree && r.Chance(1, 2) {
		kind = "subtree"
	}
	rq.kind = kind
	switch kind {
	case "addckpt":
		w.genAddCheckpoint(rq, r)
	case "addentries":
		w.genAddEntries(rq, r)
	case "subtree":
		w.genSubtree(rq, r)
	}
}

func (w *World) genAddCheckpoint(rq *request, r *core.Rand) {
	g := rq.g
	p := w.prof
	recN, recRoot := rq.rec0N, ref.Hash(rq.rec0Root)
	// the branch the witness is on (if past the fork point, it is determined)
	branches := g.branchesOf(recN, recRoot)
	b := 0
	if len(branches) > 0 {
		b = branches[r.Intn(len(branches))]
	}
	rq.branch = b
	rq.old = recN
	rq.n = recN + int64(r.Intn(int(g.size()-recN)+1))
	if r.Chance(2, 5) {
		rq.n = recN + int64(r.Intn(260))
		if rq.n > g.size() {
			rq.n = g.size()
		}
	} else if r.Chance(1, 5) {
		rq.n = recN + int64(r.Intn(3))
		if rq.n > g.size() {
			rq.n = g.size()
		}
	}
	signer := g.signer
	ext := ""
	oldLine := fmt.Sprintf("old %d", rq.old)
	proofBranch := b
	if r.Chance(p.DefectPct, 100) {
		defects := []string{"unknown-origin", "bad-sig", "old-mismatch", "bad-proof", "other-fork", "malformed-old", "noncanonical-old", "extension", "old-gt-new", "no-separator", "bad-root"}
		rq.defect = defects[r.Intn(len(defects))]
	}
	if rq.defect == "bad-root" && recN == 0 {
		// from the empty tree any signed root is acceptable: not a defect
		rq.defect = ""
	}
	var ckpt []byte
	var proof []tlog.Hash
	switch rq.defect {
	case "old-mismatch":
		cands := []int64{recN + 1, recN - 1, 0, g.size()}
		rq.old = -1
		for _, c := range cands {
			if c >= 0 && c != recN && c <= g.size() {
				rq.old = c
				break
			}
		}
		if rq.old < 0 {
			rq.defect = ""
			rq.old = recN
		} else {
			if rq.n < rq.old {
				rq.n = rq.old
			}
			oldLine = fmt.Sprintf("old %d", rq.old)
		}
	case "old-gt-new":
		if recN == 0 {
			rq.defect = ""
		} else {
			rq.n = recN - 1
		}
	case "other-fork":
		// a checkpoint on the other branch past the fork point, while the
		// recorded tree is already past the fork point on this branch
		if recN > g.forkAt && len(branches) == 1 && rq.n > g.forkAt {
			proofBranch = 1 - b
			rq.branch = 1 - b
		} else {
			rq.defect = ""
		}
	}
	proof = g.consistencyProof(proofBranch, min(rq.old, rq.n), rq.n)
	switch rq.defect {
	case "bad-sig":
		signer = g.other
	case "extension":
		// any extension line, also one that is only white space
		ext = []string{"extra line\n", " \n", "\t\n", "a\nb\n", "  x\n"}[r.Intn(5)]
	case "bad-proof":
		if rq.old == 0 || rq.old == rq.n {
			proof = append(proof, tlog.Hash{7})
		} else if len(proof) > 0 && r.Chance(1, 2) {
			proof[r.Intn(len(proof))][r.Intn(32)] ^= 0x10
		} else if len(proof) > 0 {
			proof = proof[:len(proof)-1]
		}
	case "malformed-old":
		oldLine = []string{"old x", "new 3", "old -1", "old"}[r.Intn(4)]
	case "noncanonical-old":
		oldLine = fmt.Sprintf("old 0%d", rq.old)
	}
	if rq.defect == "bad-root" {
		root := g.root(rq.branch, rq.n)
		root[5] ^= 1
		msg, _ := note.Sign(&note.Note{Text: ckptText(g.origin, rq.n, root, "")}, signer)
		ckpt = msg
		if rq.n == rq.old && rq.old == 0 {
			// size 0 with a non-empty-tree root: refused as bad proof
		}
	} else {
		ckpt = g.signedCheckpoint(rq.branch, rq.n, signer, ext)
	}
	if rq.defect == "unknown-origin" {
		msg, _ := note.Sign(&note.Note{Text: ckptText("unknown.example/log", rq.n, g.root(rq.branch, rq.n), "")}, g.signer)
		ckpt = msg
	}
	body := addCheckpointBody(oldLine, proof, ckpt)
	if rq.defect == "no-separator" {
		body = bytes.Replace(body, []byte("\n\n"), []byte("\n"), -1)
	}
	rq.body = body
	hreq := httptest.NewRequest("POST", "/add-checkpoint", bytes.NewReader(body))
	w.serve(rq, hreq)
}

// lastTicket is the most recent ticket handed out in a 409/202 answer.
type ticketRec struct {
	inc    int
	origin string
	ticket []byte
	n      int64
}

func (w *World) genAddEntries(rq *request, r *core.Rand) {
	g := rq.g
	p := w.prof
	recN, recRoot := rq.rec0N, ref.Hash(rq.rec0Root)
	mirN, _, _ := w.mirrored(g)
	rq.mir0N = mirN
	branches := g.branchesOf(recN, recRoot)
	b := 0
	if len(branches) > 0 {
		b = branches[0]
	}
	rq.branch = b
	next := w.inc.wit.VerifNextEntry(g.origin)
	if next < 0 {
		next = mirN
	}
	rq.end = recN
	rq.start = next
	var ticket []byte
	if r.Chance(p.DefectPct, 100) {
		defects := []string{"start-ahead", "start-ahead", "start-ahead", "start-behind", "end-unknown", "wrong-entry", "wrong-proof", "stale-ticket", "stale-ticket", "ticket-cut", "ticket-cut", "overshoot-cut", "overshoot-cut", "forged-ticket", "end-mirror", "unaligned", "far-behind"}
		rq.defect = defects[r.Intn(len(defects))]
	}
	cutAfter := -1
	// an older ticketed size that lies inside the partial tile at the upload
	// frontier: committing there cuts a tile that was only uploaded wider
	var sameTile []ticketRec
	for _, t := range w.tickets {
		if t.origin == g.origin && t.inc == w.inc.n && t.n > mirN && t.n < next && t.n/256 == next/256 && t.n%256 != 0 {
			sameTile = append(sameTile, t)
		}
	}
	if len(sameTile) > 0 && r.Chance(1, 2) {
		rq.defect = "ticket-cut"
		w.sim.Probe("req.ticket-cut.same-tile")
	}
	corruptPkg, corruptKind := -1, ""
	switch rq.defect {
	case "start-ahead":
		rq.start = min(next+1+int64(r.Intn(300)), recN)
		if rq.start == next {
			rq.defect = ""
		}
	case "start-behind", "unaligned":
		if next == 0 {
			rq.defect = ""
		} else {
			rq.start = next - 1 - int64(r.Intn(int(min(next, 600))))
			if rq.start < 0 {
				rq.start = 0
			}
		}
	case "far-behind":
		if next < 9*256 {
			rq.defect = "start-behind"
			rq.start = 0
		} else {
			rq.start = 0
		}
	case "end-unknown":
		if recN <= 1 {
			rq.defect = ""
		} else {
			rq.end = 1 + int64(r.Intn(int(recN-1)))
			if rq.end == mirN {
				rq.defect = "end-mirror"
			}
			if rq.start > rq.end {
				rq.start = rq.end
			}
		}
	case "end-mirror":
		rq.end = mirN
		if rq.start > rq.end {
			rq.start = rq.end
		}
	case "wrong-entry":
		corruptPkg, corruptKind = 0, "entry"
	case "wrong-proof":
		corruptPkg, corruptKind = 0, "proof"
	case "overshoot-cut":
		// upload towards the pending checkpoint, but the body ends right after the
		// package that crosses an older ticketed size: the frontier is then beyond
		// a size for which a ticket exists, without any commit
		rq.defect = ""
		for _, t := range w.tickets {
			if t.origin == g.origin && t.inc == w.inc.n && t.n > mirN && t.n > next && t.n < recN {
				pk := int((t.n+255)/256 - next/256) // packages needed to pass t.n
				total := int((recN+255)/256 - next/256)
				if pk >= 1 && pk < total {
					cutAfter = pk
					rq.defect = "overshoot-cut"
					w.sim.Probe("req.overshoot-cut")
					break
				}
			}
		}
	case "ticket-cut":
		// commit at an older, ticketed size that lies behind the upload frontier:
		// the checkpoint cuts a tile that was uploaded wider (or not at all)
		var cands []ticketRec
		for _, t := range w.tickets {
			if t.origin == g.origin && t.inc == w.inc.n && t.n > mirN && t.n <= next && t.n <= g.size() {
				cands = append(cands, t)
			}
		}
		if len(sameTile) > 0 {
			cands = sameTile
		}
		if len(cands) == 0 {
			rq.defect = ""
		} else {
			t := cands[r.Intn(len(cands))]
			ticket = bytes.Clone(t.ticket)
			rq.end = t.n
			rq.start = t.n
			if r.Chance(1, 2) && t.n > 0 {
				rq.start = t.n - int64(r.Intn(int(min(t.n, 300))))
			}
			w.sim.Probe("req.ticket-cut")
		}
	case "stale-ticket", "forged-ticket":
		if len(w.tickets) > 0 {
			t := w.tickets[r.Intn(len(w.tickets))]
			ticket = bytes.Clone(t.ticket)
			if rq.defect == "forged-ticket" {
				ticket[len(ticket)/2] ^= 1
			}
			if t.n >= rq.start && t.n <= g.size() {
				rq.end = t.n
			}
		} else {
			rq.defect = ""
		}
	}
	if rq.start > rq.end {
		rq.start = rq.end
	}
	if rq.start == rq.end && corruptKind != "" {
		rq.defect, corruptPkg, corruptKind = "", -1, ""
	}
	if rq.end > g.size() {
		rq.end = g.size()
	}
	rq.segs = g.addEntriesSegments(b, rq.start, rq.end, ticket, corruptPkg, corruptKind)
	rq.gz = r.Chance(1, 4)
	var body io.ReadCloser
	if rq.gz {
		var raw bytes.Buffer
		zw := gzip.NewWriter(&raw)
		for _, s := range rq.segs {
			zw.Write(s)
		}
		zw.Close()
		body = io.NopCloser(bytes.NewReader(raw.Bytes()))
	} else {
		body = &segReader{w: w, req: rq, segs: rq.segs, cutAfterSeg: cutAfter}
		if cutAfter >= 0 {
			rq.faulted = true
		}
	}
	hreq := httptest.NewRequest("POST", "/add-entries", body)
	hreq.Header.Set("Content-Type", "application/octet-stream")
	if rq.gz {
		hreq.Header.Set("Content-Encoding", "gzip")
	}
	w.serve(rq, hreq)
}

// cosigned checkpoints seen in responses: text + own signature lines
type cosigned struct {
	g      *glog
	branch int
	n      int64
	text   string
	logSig string
	w1     string // Ed25519 witness line
	w2     string // ML-DSA witness line
	m      string // mirror line
}

func (w *World) genSubtree(rq *request, r *core.Rand) {
	g := rq.g
	// pick a cosigned checkpoint of this log, or fabricate one
	var cands []*cosigned
	for _, c := range w.cosigned {
		if c.g == g {
			cands = append(cands, c)
		}
	}
	var c *cosigned
	signerKind := "none"
	if len(cands) > 0 && r.Chance(4, 5) {
		c = cands[r.Intn(len(cands))]
	} else {
		n := int64(1 + r.Intn(int(g.size())))
		c = &cosigned{g: g, branch: 0, n: n, text: ckptText(g.origin, n, g.root(0, n), "")}
		lines := func(b []byte) []string { _, l := splitSigLines(b); return l }
		c.logSig = lines(g.signedCheckpoint(0, n, g.signer, ""))[0]
	}
	rq.branch, rq.n = c.branch, c.n
	var sigs []string
	sigs = append(sigs, c.logSig)
	rq.subSigners = map[string]bool{}
	kinds := []string{"witness", "witness", "mirror", "mirror", "both", "both", "both", "foreign", "forged", "none", "ed25519-only",
		"witness+foreign-mirror-name", "mirror+ed25519"}
	signerKind = kinds[r.Intn(len(kinds))]
	switch signerKind {
	case "witness":
		if c.w2 != "" {
			sigs = append(sigs, c.w1, c.w2)
			rq.subSigners[witnessName] = true
		}
	case "mirror":
		if c.m != "" {
			sigs = append(sigs, c.m)
			rq.subSigners[mirrorName] = true
		}
	case "both":
		if c.w2 != "" {
			sigs = append(sigs, c.w2)
			rq.subSigners[witnessName] = true
		}
		if c.m != "" {
			sigs = append(sigs, c.m)
			rq.subSigners[mirrorName] = true
		}
	case "ed25519-only":
		if c.w1 != "" {
			sigs = append(sigs, c.w1)
		}
	case "witness+foreign-mirror-name":
		// valid witness cosignatures, and under the mirror's NAME a line by
		// another key: only the witness key may sign
		if c.w2 != "" {
			sigs = append(sigs, c.w1, c.w2)
			rq.subSigners[witnessName] = true
		}
		k, _ := mldsa.NewPrivateKey(mldsa.MLDSA44(), hash32("not the mirror"))
		if s, err := torchwood.NewCosignatureSigner(mirrorName, k); err == nil {
			if msg, err := note.Sign(&note.Note{Text: c.text}, s); err == nil {
				_, l := splitSigLines(msg)
				sigs = append(sigs, l...)
			}
		}
	case "mirror+ed25519":
		// a valid mirror cosignature, and of the witness only its Ed25519 line:
		// the witness's ML-DSA key is not on the checkpoint
		if c.m != "" {
			sigs = append(sigs, c.m)
			rq.subSigners[mirrorName] = true
		}
		if c.w1 != "" {
			sigs = append(sigs, c.w1)
		}
	case "foreign":
		k, _ := mldsa.NewPrivateKey(mldsa.MLDSA44(), hash32("foreign witness"))
		s, _ := torchwood.NewCosignatureSigner("foreign.example/w", k)
		msg, err := note.Sign(&note.Note{Text: c.text}, s)
		if err == nil {
			_, l := splitSigLines(msg)
			sigs = append(sigs, l...)
		}
	case "forged":
		// right name, another key: the key hash differs, so it is an unknown signer
		k, _ := mldsa.NewPrivateKey(mldsa.MLDSA44(), hash32("forged witness"))
		s, _ := torchwood.NewCosignatureSigner(witnessName, k)
		msg, err := note.Sign(&note.Note{Text: c.text}, s)
		if err == nil {
			_, l := splitSigLines(msg)
			sigs = append(sigs, l...)
		}
		// and a corrupted copy of the real signature
		if c.w2 != "" && r.Chance(1, 2) {
			parts := strings.SplitN(strings.TrimSuffix(c.w2, "\n"), " ", 3)
			raw, _ := base64.StdEncoding.DecodeString(parts[2])
			raw[len(raw)-3] ^= 1
			sigs = append(sigs, parts[0]+" "+parts[1]+" "+base64.StdEncoding.EncodeToString(raw)+"\n")
			rq.defect = "corrupted-own-signature"
		}
	}
	noteBytes := []byte(c.text + "\n" + strings.Join(sigs, ""))
	// range
	n := c.n
	var s, e int64
	switch []int{0, 1, 1, 1, 1, 2, 3, 4, 5, 5}[r.Intn(10)] {
	case 0:
		s, e = 0, n
	case 1:
		// random valid subtree within n
		sz := int64(1) << uint(r.Intn(10))
		if sz > n {
			sz = 1
		}
		s = int64(r.Intn(int(n/sz))) * sz
		e = s + 1 + int64(r.Intn(int(sz)))
		if e > n {
			e = n
		}
		if !ref.ValidSubtree(s, e) {
			e = s + 1
		}
	case 2:
		s = int64(r.Intn(int(n)))
		e = s + 1 + int64(r.Intn(int(n-s)))
	case 3:
		s, e = int64(r.Intn(int(n))), n+1+int64(r.Intn(5)) // beyond the tree
		if r.Chance(1, 2) {
			s = 0
			if r.Chance(1, 3) {
				e = int64(1) << uint(10+r.Intn(31))
			}
		}
	case 4:
		s = int64(r.Intn(int(n)))
		e = s // empty
	default:
		s = int64(r.Intn(int(n)))
		e = s + 1
	}
	rq.subStart, rq.subEnd = s, e
	valid := ref.ValidSubtree(s, e) && e <= n
	var h tlog.Hash
	var proof torchwood.SubtreeProof
	if valid {
		h = tlog.Hash(g.tree[c.branch].SubtreeHash(s, e))
		pr, err := torchwood.ProveSubtree(n, s, e, g.hashReader(c.branch))
		if err == nil {
			proof = pr
		}
		switch r.Intn(9) {
		case 0:
			h[0] ^= 1
			rq.defect = "wrong-hash"
		case 1:
			if len(proof) > 0 {
				proof[0][1] ^= 1
			} else {
				proof = append(proof, tlog.Hash{9})
			}
			rq.defect = "wrong-proof"
		case 2:
			// hash of the same range on the other branch
			if e > g.forkAt {
				h = tlog.Hash(g.tree[1-c.branch].SubtreeHash(s, e))
				if h != tlog.Hash(g.tree[c.branch].SubtreeHash(s, e)) {
					rq.defect = "other-branch-hash"
				}
			}
		case 3, 4:
			// the checkpoint's own root hash offered as the hash of a part of the
			// tree, without a proof
			if s != 0 || e != n {
				h = tlog.Hash(g.root(c.branch, n))
				proof = nil
				rq.defect = "root-hash-for-part"
			}
		}
	} else {
		rq.defect = "invalid-range"
		if r.Chance(1, 2) {
			h = tlog.Hash(g.root(c.branch, n))
		}
	}
	// the header (range, hash, proof) of an earlier request that was answered
	// with signatures, presented again with THIS checkpoint
	if len(w.signedHeaders) > 0 && r.Chance(1, 8) {
		old := w.signedHeaders[r.Intn(len(w.signedHeaders))]
		s, e, h, proof = old.s, old.e, old.h, old.proof
		rq.subStart, rq.subEnd = s, e
		rq.defect = "replayed-header"
	}
	rq.subHash = h
	rq.subProof = proof
	var b bytes.Buffer
	fmt.Fprintf(&b, "subtree %d %d\n%s\n", s, e, base64.StdEncoding.EncodeToString(h[:]))
	for _, ph := range proof {
		b.WriteString(base64.StdEncoding.EncodeToString(ph[:]))
		b.WriteString("\n")
	}
	b.WriteString("\n")
	b.Write(noteBytes)
	rq.body = b.Bytes()
	_ = signerKind
	hreq := httptest.NewRequest("POST", "/sign-subtree", bytes.NewReader(rq.body))
	w.serve(rq, hreq)
}

var _ = http.StatusOK
