package wit

import (
	"bytes"
	"crypto/ed25519"
	"crypto/sha256"
	"encoding/base64"
	"encoding/binary"
	"fmt"
	"strings"

	"filippo.io/sunlight/internal/verifsim/core"
	"filippo.io/sunlight/internal/verifsim/ref"
	"filippo.io/torchwood"
	"golang.org/x/mod/sumdb/note"
	"golang.org/x/mod/sumdb/tlog"
)

// glog is a ground-truth log with one fork: two entry sequences that share
// the first forkAt entries, both signed by the log key on request.
type glog struct {
	origin  string
	signer  note.Signer
	other   note.Signer // same name, another key
	vkey    string
	forkAt  int64
	entries [2][][]byte
	tree    [2]*ref.Tree
}

func noteKeys(name string, seed []byte) (skey, vkey string) {
	priv := ed25519.NewKeyFromSeed(seed)
	pub := priv.Public().(ed25519.PublicKey)
	const algEd25519 = 1
	pubkey := append([]byte{algEd25519}, pub...)
	h := sha256.New()
	h.Write([]byte(name))
	h.Write([]byte("\n"))
	h.Write(pubkey)
	kh := binary.BigEndian.Uint32(h.Sum(nil))
	vkey = fmt.Sprintf("%s+%08x+%s", name, kh, base64.StdEncoding.EncodeToString(pubkey))
	skey = fmt.Sprintf("PRIVATE+KEY+%s+%08x+%s", name, kh, base64.StdEncoding.EncodeToString(append([]byte{algEd25519}, seed...)))
	return
}

func hash32(s string) []byte { h := sha256.Sum256([]byte(s)); return h[:] }

func newGlog(origin string, size, forkAt int64, seed uint64) *glog {
	g := &glog{origin: origin, forkAt: forkAt}
	sk, vk := noteKeys(origin, hash32("log key "+origin))
	s, err := note.NewSigner(sk)
	if err != nil {
		panic(err)
	}
	g.signer, g.vkey = s, vk
	sk2, _ := noteKeys(origin, hash32("another log key "+origin))
	g.other, _ = note.NewSigner(sk2)
	r := core.NewRand(core.Mix(seed, core.HashString(origin)))
	for b := 0; b < 2; b++ {
		g.tree[b] = &ref.Tree{}
		for i := int64(0); i < size; i++ {
			var e []byte
			if b == 1 && i < forkAt {
				e = g.entries[0][i]
			} else {
				n := 1 + r.Intn(40)
				if r.Chance(1, 50) {
					n = 0
				}
				e = make([]byte, n)
				for j := range e {
					e[j] = byte(r.Uint64())
				}
				e = append(e, []byte(fmt.Sprintf("|%d.%d", b, i))...)
			}
			g.entries[b] = append(g.entries[b], e)
			g.tree[b].Append(ref.LeafHash(e))
		}
	}
	return g
}

func (g *glog) size() int64 { return int64(len(g.entries[0])) }

func (g *glog) root(b int, n int64) ref.Hash { return g.tree[b].Root(n) }

// branchOf returns which branches have the given root at size n.
func (g *glog) branchesOf(n int64, root ref.Hash) []int {
	var out []int
	for b := 0; b < 2; b++ {
		if n <= g.size() && g.root(b, n) == root {
			out = append(out, b)
		}
	}
	return out
}

func ckptText(origin string, n int64, root ref.Hash, ext string) string {
	return fmt.Sprintf("%s\n%d\n%s\n%s", origin, n, base64.StdEncoding.EncodeToString(root[:]), ext)
}

// signedCheckpoint returns the log's signed checkpoint for (branch, n).
func (g *glog) signedCheckpoint(b int, n int64, s note.Signer, ext string) []byte {
	msg, err := note.Sign(&note.Note{Text: ckptText(g.origin, n, g.root(b, n), ext)}, s)
	if err != nil {
		panic(err)
	}
	return msg
}

// hashReader adapts the ground truth to tlog's stored-hash indexing (client
// side only: used to build proofs the way a real client would).
func (g *glog) hashReader(b int) tlog.HashReaderFunc {
	return func(indexes []int64) ([]tlog.Hash, error) {
		out := make([]tlog.Hash, len(indexes))
		for i, id := range indexes {
			level, n := tlog.SplitStoredHashIndex(id)
			h, ok := g.tree[b].Node(level, n)
			if !ok {
				return nil, fmt.Errorf("no stored hash %d", id)
			}
			out[i] = tlog.Hash(h)
		}
		return out, nil
	}
}

func (g *glog) consistencyProof(b int, old, n int64) []tlog.Hash {
	if old == 0 || old == n {
		return nil
	}
	p, err := tlog.ProveTree(n, old, g.hashReader(b))
	if err != nil {
		panic(err)
	}
	return p
}

// addCheckpointBody builds a c2sp.org/tlog-witness add-checkpoint request.
func addCheckpointBody(oldLine string, proof []tlog.Hash, ckpt []byte) []byte {
	var b bytes.Buffer
	b.WriteString(oldLine)
	b.WriteString("\n")
	for _, h := range proof {
		b.WriteString(base64.StdEncoding.EncodeToString(h[:]))
		b.WriteString("\n")
	}
	b.WriteString("\n")
	b.Write(ckpt)
	return b.Bytes()
}

// addEntriesSegments builds an add-entries body as a header segment followed
// by one segment per entry package.
func (g *glog) addEntriesSegments(b int, start, end int64, ticket []byte, corruptPkg int, corruptKind string) [][]byte {
	var hdr []byte
	hdr = binary.BigEndian.AppendUint16(hdr, uint16(len(g.origin)))
	hdr = append(hdr, g.origin...)
	hdr = binary.BigEndian.AppendUint64(hdr, uint64(start))
	hdr = binary.BigEndian.AppendUint64(hdr, uint64(end))
	hdr = binary.BigEndian.AppendUint16(hdr, uint16(len(ticket)))
	hdr = append(hdr, ticket...)
	segs := [][]byte{hdr}
	if start == end {
		return segs
	}
	rs := start - start%256
	re := (end + 255) / 256 * 256
	for i := int64(0); i < (re-rs)/256; i++ {
		ts := rs + i*256
		s := max(start, ts)
		e := min(end, ts+256)
		var p []byte
		for k := s; k < e; k++ {
			ent := g.entries[b][k]
			if int(i) == corruptPkg && corruptKind == "entry" && k == s {
				ent = append(bytes.Clone(ent), 'X')
			}
			p = binary.BigEndian.AppendUint16(p, uint16(len(ent)))
			p = append(p, ent...)
		}
		proof, err := torchwood.ProveSubtree(end, ts, e, g.hashReader(b))
		if err != nil {
			panic(err)
		}
		if int(i) == corruptPkg && corruptKind == "proof" {
			if len(proof) > 0 {
				proof[0][3] ^= 1
			} else {
				proof = append(proof, tlog.Hash{1})
			}
		}
		p = append(p, byte(len(proof)))
		for _, h := range proof {
			p = append(p, h[:]...)
		}
		segs = append(segs, p)
	}
	return segs
}

func splitSigLines(noteBytes []byte) (text string, lines []string) {
	i := bytes.LastIndex(noteBytes, []byte("\n\n"))
	if i < 0 {
		return "", nil
	}
	text = string(noteBytes[:i+1])
	for _, l := range strings.SplitAfter(string(noteBytes[i+2:]), "\n") {
		if l != "" {
			lines = append(lines, l)
		}
	}
	return
}
