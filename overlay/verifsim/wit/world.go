// Package wit (witsim) runs the real witness/mirror handlers over a simulated
// lock store and object store under the seeded scheduler (C14, C15, C16).
package wit

import (
	"bytes"
	"context"
	"crypto/sha256"
	"errors"
	"fmt"
	"sort"
	"sync"

	"filippo.io/sunlight/internal/ctlog"
	"filippo.io/sunlight/internal/verifsim/core"
	"filippo.io/sunlight/internal/witness"
	"github.com/prometheus/client_golang/prometheus"
)

var (
	errInjected = errors.New("verifsim: injected failure")
	errNotFound = errors.New("verifsim: object not found")
)

type obj struct {
	data []byte
	opts ctlog.UploadOptions
	ver  int
}

type lockEvent struct {
	step  int
	inc   int
	key   [32]byte
	bytes []byte
	how   string
}

type lockedCkpt struct {
	id [32]byte
	b  []byte
}

func (l *lockedCkpt) Bytes() []byte { return l.b }

type pendingOp struct {
	data []byte
	opts *ctlog.UploadOptions
	id   [32]byte
	old  []byte
	res  opResult
}

type opResult struct {
	data []byte
	lc   ctlog.LockedCheckpoint
	err  error
}

// incarnation is one witness process.
type incarnation struct {
	w    *World
	n    int
	dead bool
	wit  *witness.Witness
	cfg  *witness.Config
	crashPending bool
}

type backendH struct{ inc *incarnation }

func (h *backendH) Upload(ctx context.Context, key string, data []byte, opts *ctlog.UploadOptions) error {
	return h.inc.w.seam(h.inc, ctx, "up", key, true, &pendingOp{data: bytes.Clone(data), opts: opts}).err
}
func (h *backendH) Fetch(ctx context.Context, key string) ([]byte, error) {
	r := h.inc.w.seam(h.inc, ctx, "get", key, false, &pendingOp{})
	return r.data, r.err
}
func (h *backendH) Discard(ctx context.Context, key string) error {
	return h.inc.w.seam(h.inc, ctx, "del", key, true, &pendingOp{}).err
}
func (h *backendH) Metrics() []prometheus.Collector { return nil }

type lockH struct{ inc *incarnation }

func (h *lockH) Fetch(ctx context.Context, id [sha256.Size]byte) (ctlog.LockedCheckpoint, error) {
	r := h.inc.w.seam(h.inc, ctx, "lfetch", fmt.Sprintf("%x", id[:4]), false, &pendingOp{id: id})
	return r.lc, r.err
}
func (h *lockH) Replace(ctx context.Context, old ctlog.LockedCheckpoint, new []byte) (ctlog.LockedCheckpoint, error) {
	o, ok := old.(*lockedCkpt)
	if !ok {
		return nil, errors.New("verifsim: foreign LockedCheckpoint")
	}
	r := h.inc.w.seam(h.inc, ctx, "lreplace", fmt.Sprintf("%x", o.id[:4]), true, &pendingOp{id: o.id, old: o.b, data: bytes.Clone(new)})
	return r.lc, r.err
}
func (h *lockH) Create(ctx context.Context, id [sha256.Size]byte, new []byte) error {
	return h.inc.w.seam(h.inc, ctx, "lcreate", fmt.Sprintf("%x", id[:4]), true, &pendingOp{id: id, data: bytes.Clone(new)}).err
}

// World is the state of one run.
type World struct {
	sim  *core.Sim
	prof *Profile
	tmp  string

	smu     sync.Mutex
	objs    map[string]*obj
	ver     int
	lock    map[[32]byte][]byte
	lockLog []*lockEvent
	probeMu sync.Mutex
	auto    bool

	inc  *incarnation
	incN int

	logs []*glog
	reqs []*request

	plan    []int
	planPos int
	curReq  *request

	notesMu sync.Mutex
	notes   []string
	doneQ   []*request

	restarts int
	orc      *oracle

	failNextMirrorCommit bool
	signedHeaders        []signedHeader // sign-subtree headers that were answered with signatures
	failUploadAt         int // auto mode: the n-th upload from now fails (0 = none)
	failUploadMatch      func(key string) bool // auto mode: the first upload of a matching key fails
	shadow     *incarnation // a second live witness process (C14)
	shadowUsed bool
	reqOfOp  map[string]*request
	tickets  []ticketRec
	cosigned []*cosigned
}

func (w *World) note(format string, a ...any) {
	s := fmt.Sprintf(format, a...)
	w.notesMu.Lock()
	w.notes = append(w.notes, s)
	w.notesMu.Unlock()
}

func (w *World) flushNotes() {
	w.notesMu.Lock()
	n := w.notes
	w.notes = nil
	w.notesMu.Unlock()
	if len(n) > 0 {
		w.sim.LogSorted(n)
	}
}

func (w *World) nextPlan() int {
	v := 0
	if w.planPos < len(w.plan) {
		v = w.plan[w.planPos]
	}
	w.planPos++
	return v
}

func (w *World) seam(inc *incarnation, ctx context.Context, kind, key string, mut bool, p *pendingOp) opResult {
	if w.auto {
		if w.failNextMirrorCommit && kind == "lreplace" && w.orc.keyMirror[p.id] != nil {
			// scripted fault: the mirror checkpoint CAS fails without effect
			w.failNextMirrorCommit = false
			w.sim.Probe("script.commit-failed")
			return opResult{err: fmt.Errorf("%w (scripted lreplace)", errInjected)}
		}
		if kind == "up" && w.failUploadMatch != nil && w.failUploadMatch(key) {
			// scripted fault: the first upload of a matching key fails without effect
			w.failUploadMatch = nil
			w.sim.Probe("script.upload-failed.match")
			if w.curReq != nil {
				w.curReq.faulted = true
			}
			return opResult{err: fmt.Errorf("%w (scripted upload %s)", errInjected, key)}
		}
		if kind == "up" && w.failUploadAt > 0 {
			w.failUploadAt--
			if w.failUploadAt == 0 {
				// scripted fault: this upload fails without effect
				w.sim.Probe("script.upload-failed")
				if w.curReq != nil {
					w.curReq.faulted = true
				}
				return opResult{err: fmt.Errorf("%w (scripted upload %s)", errInjected, key)}
			}
		}
		w.smu.Lock()
		w.apply(inc, kind, key, p, true)
		w.smu.Unlock()
		return p.res
	}
	dead := inc.dead
	w.probeMu.Lock()
	held := inc.wit != nil && inc.wit.VerifMutexHeld()
	w.probeMu.Unlock()
	if held {
		out := core.OutOK
		if dead {
			out = core.OutErrNot
		} else {
			switch w.nextPlan() {
			case 1:
				out = core.OutErrNot
			case 2:
				out = core.OutErrApplied
			case 3:
				inc.dead = true
				inc.crashPending = true
				out = core.OutErrNot
			}
		}
		if !mut && out == core.OutErrApplied {
			out = core.OutErrNot
		}
		w.smu.Lock()
		w.apply(inc, kind, key, p, out != core.OutErrNot)
		w.smu.Unlock()
		if out != core.OutOK {
			p.res = opResult{err: fmt.Errorf("%w (%s %s)", errInjected, kind, key)}
			w.sim.Probe("fault.nonyield." + out + "." + kind)
			if w.curReq != nil {
				w.curReq.faulted = true
				if kind == "lreplace" {
					w.curReq.casFaulted = true
				}
			}
		}
		w.note("ny %d %s %s -> %s", inc.n, kind, key, out)
		return p.res
	}
	if dead {
		select {}
	}
	op := &core.Op{ID: w.sim.NewOpID(0, inc.n, kind, key), Inst: 0, Inc: inc.n, Kind: kind, Key: key, Mut: mut, Ctx: ctx, Payload: p}
	w.sim.Park(op)
	return p.res
}

func (w *World) apply(inc *incarnation, kind, key string, p *pendingOp, effect bool) {
	switch kind {
	case "get":
		if !effect {
			p.res = opResult{err: errInjected}
			return
		}
		if o, ok := w.objs[key]; ok {
			p.res = opResult{data: bytes.Clone(o.data)}
		} else {
			p.res = opResult{err: fmt.Errorf("%w: %s", errNotFound, key)}
		}
	case "up":
		if !effect {
			return
		}
		w.orc.onUpload(inc, key, p)
	case "del":
		if effect {
			w.orc.v("C15", "discard", "witness discards %s", key)
		}
	case "lfetch":
		if !effect {
			p.res = opResult{err: errInjected}
			return
		}
		if v, ok := w.lock[p.id]; ok {
			p.res = opResult{lc: &lockedCkpt{id: p.id, b: bytes.Clone(v)}}
		} else {
			p.res = opResult{err: ctlog.ErrLogNotFound}
		}
	case "lreplace":
		if !effect {
			return
		}
		cur, ok := w.lock[p.id]
		if !ok || !bytes.Equal(cur, p.old) {
			p.res = opResult{err: errors.New("verifsim: lock value has changed")}
			w.sim.Probe("cas.lost")
			return
		}
		w.lock[p.id] = bytes.Clone(p.data)
		w.lockLog = append(w.lockLog, &lockEvent{step: w.sim.Step, inc: inc.n, key: p.id, bytes: bytes.Clone(p.data), how: "replace"})
		p.res = opResult{lc: &lockedCkpt{id: p.id, b: bytes.Clone(p.data)}}
		w.orc.onLockCommit(inc, p.id, p.data)
	case "lcreate":
		if !effect {
			return
		}
		if _, ok := w.lock[p.id]; ok {
			p.res = opResult{err: errors.New("verifsim: lock value exists")}
			return
		}
		w.lock[p.id] = bytes.Clone(p.data)
		w.lockLog = append(w.lockLog, &lockEvent{step: w.sim.Step, inc: inc.n, key: p.id, bytes: bytes.Clone(p.data), how: "create"})
	}
}

func (w *World) keys() []string {
	ks := make([]string, 0, len(w.objs))
	for k := range w.objs {
		ks = append(ks, k)
	}
	sort.Strings(ks)
	return ks
}
