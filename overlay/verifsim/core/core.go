// Package core is the engine-independent part of the deterministic simulator:
// PRNG, command traces, the seam at which goroutines of the system under test
// park, the event log, probes, violations and the trace minimiser.
//
// It imports nothing from sunlight.
package core

import (
	"context"
	"crypto/sha256"
	"encoding/hex"
	"encoding/json"
	"fmt"
	"os"
	"sort"
	"strings"
	"sync"
)

// ---------------------------------------------------------------------------
// PRNG

// Rand is a SplitMix64 generator. It is the only source of randomness of a
// run; it is never shared between goroutines of the system under test.
type Rand struct{ s uint64 }

func NewRand(seed uint64) *Rand { return &Rand{s: seed} }

func (r *Rand) Uint64() uint64 {
	r.s += 0x9e3779b97f4a7c15
	z := r.s
	z = (z ^ (z >> 30)) * 0xbf58476d1ce4e5b9
	z = (z ^ (z >> 27)) * 0x94d049bb133111eb
	return z ^ (z >> 31)
}

// Intn returns a value in [0,n). n<=1 returns 0 without drawing.
func (r *Rand) Intn(n int) int {
	if n <= 1 {
		return 0
	}
	return int(r.Uint64() % uint64(n))
}

// Chance reports true with probability num/den.
func (r *Rand) Chance(num, den int) bool {
	if num <= 0 {
		return false
	}
	return r.Intn(den) < num
}

// Pick returns an index chosen with the given weights (all >= 0, sum > 0).
func (r *Rand) Pick(weights []int) int {
	sum := 0
	for _, w := range weights {
		sum += w
	}
	if sum <= 0 {
		return 0
	}
	x := r.Intn(sum)
	for i, w := range weights {
		if x < w {
			return i
		}
		x -= w
	}
	return len(weights) - 1
}

// Mix derives a sub-seed.
func Mix(a, b uint64) uint64 {
	r := Rand{s: a ^ (b * 0xff51afd7ed558ccd)}
	r.Uint64()
	return r.Uint64()
}

// HashString is FNV-1a 64.
func HashString(s string) uint64 {
	h := uint64(14695981039346656037)
	for i := 0; i < len(s); i++ {
		h ^= uint64(s[i])
		h *= 1099511628211
	}
	return h
}

// ---------------------------------------------------------------------------
// Commands and traces

// A Cmd is one scheduler decision: self-describing, so that a trace stays
// meaningful when other commands are removed from it by the minimiser.
type Cmd struct {
	// A is the action name.
	A string `json:"a"`
	// Op is the canonical identity of the parked operation, for release actions.
	Op string `json:"op,omitempty"`
	// Out is the outcome of a release.
	Out string `json:"out,omitempty"`
	// I is an instance / client / item index.
	I int `json:"i,omitempty"`
	// N is a numeric argument (duration in ms, item index, ...).
	N int64 `json:"n,omitempty"`
	// S is a free string argument.
	S string `json:"s,omitempty"`
	// L is a list argument (fault plan, applied subset, ...).
	L []int `json:"l,omitempty"`
	// V is a secondary numeric argument (victim choice, variant, ...).
	V int `json:"v,omitempty"`
}

func (c Cmd) String() string {
	b, _ := json.Marshal(c)
	return string(b)
}

// A WCmd is an enabled command with its selection weight.
type WCmd struct {
	Cmd
	W int
}

// Replay is the on-disk replay file.
type Replay struct {
	Property  string          `json:"property"`
	Engine    string          `json:"engine"`
	Seed      uint64          `json:"seed"`
	Profile   json.RawMessage `json:"profile"`
	Trace     []Cmd           `json:"trace"`
	Violation string          `json:"violation"`
	Class     string          `json:"class"`
	Minimised bool            `json:"minimised"`
	OrigLen   int             `json:"orig_len"`
	Note      string          `json:"note,omitempty"`
}

func LoadReplay(path string) (*Replay, error) {
	b, err := os.ReadFile(path)
	if err != nil {
		return nil, err
	}
	r := &Replay{}
	if err := json.Unmarshal(b, r); err != nil {
		return nil, err
	}
	return r, nil
}

func (r *Replay) Save(path string) error {
	b, err := json.MarshalIndent(r, "", " ")
	if err != nil {
		return err
	}
	return os.WriteFile(path, b, 0o644)
}

// ---------------------------------------------------------------------------
// Violations

// A Violation is an oracle failure attributed to one property.
type Violation struct {
	Property string `json:"property"`
	// Class is a short stable identifier of the oracle clause that failed; the
	// minimiser keeps a trace only while the same (Property, Class) is reported.
	Class string `json:"class"`
	// Sig is the known-finding signature, empty if none applies.
	Sig    string `json:"sig,omitempty"`
	Detail string `json:"detail"`
	Step   int    `json:"step"`
}

func (v Violation) String() string {
	return fmt.Sprintf("%s/%s step=%d %s", v.Property, v.Class, v.Step, v.Detail)
}

// ---------------------------------------------------------------------------
// Seam

// Outcomes of an operation released by the scheduler.
const (
	OutOK         = "ok"
	OutErrApplied = "err-applied" // the effect takes place, an error is returned
	OutErrNot     = "err-not"     // no effect, an error is returned
	OutFreeze     = "freeze"      // never returns (crashed incarnation)
)

// An Op is an operation of the system under test parked at a seam.
type Op struct {
	ID   string // canonical identity
	Task string // owning task (canonical name)
	Inst int
	Inc  int
	Kind string // "up", "get", "del", "lfetch", "lreplace", "lcreate", ...
	Key  string
	Mut  bool // mutating
	Ctx  context.Context
	// Payload is engine data (bytes to upload, ...).
	Payload any
	ch      chan string
}

// Sim is the per-run simulator state shared by an engine.
type Sim struct {
	muted bool
	Seed uint64
	Rng  *Rand

	mu     sync.Mutex // guards everything below that seam goroutines touch
	parked map[string]*Op
	occ    map[string]int
	Step   int

	logOn  bool
	log    []string
	logH   [32]byte
	Probes map[string]int64
	Viol   []Violation

	// Trace is the executed command list.
	Trace []Cmd
}

func NewSim(seed uint64) *Sim {
	return &Sim{
		Seed:   seed,
		Rng:    NewRand(Mix(seed, 0x5eed)),
		parked: map[string]*Op{},
		occ:    map[string]int{},
		Probes: map[string]int64{},
		logOn:  true,
	}
}

// KeepLog controls whether event-log lines are retained (the hash always is).
func (s *Sim) KeepLog(on bool) { s.logOn = on }

// Logf appends to the event log. It never draws random numbers and never reads
// a clock. It may be called from seam goroutines.
func (s *Sim) Logf(format string, a ...any) {
	line := fmt.Sprintf(format, a...)
	s.mu.Lock()
	s.logLocked(line)
	s.mu.Unlock()
}

// Mute suppresses event-log lines (and their contribution to the log hash)
// for a phase whose details legitimately depend on a choice the simulator does
// not make (see seq.evictBurst); the phase logs its own summary with MuteLogf.
func (s *Sim) Mute(on bool) { s.mu.Lock(); s.muted = on; s.mu.Unlock() }

func (s *Sim) MuteLogf(format string, a ...any) {
	line := fmt.Sprintf(format, a...)
	s.mu.Lock()
	m := s.muted
	s.muted = false
	s.logLocked(line)
	s.muted = m
	s.mu.Unlock()
}

func (s *Sim) logLocked(line string) {
	if s.muted {
		return
	}
	line = fmt.Sprintf("%04d %s", s.Step, line)
	h := sha256.New()
	h.Write(s.logH[:])
	h.Write([]byte(line))
	copy(s.logH[:], h.Sum(nil))
	if s.logOn {
		s.log = append(s.log, line)
	}
}

// LogUnordered logs a set of lines produced concurrently within one step in
// sorted order, so that goroutine scheduling inside a step cannot show.
func (s *Sim) LogSorted(lines []string) {
	sort.Strings(lines)
	s.mu.Lock()
	for _, l := range lines {
		s.logLocked(l)
	}
	s.mu.Unlock()
}

func (s *Sim) Log() []string { s.mu.Lock(); defer s.mu.Unlock(); return append([]string(nil), s.log...) }

func (s *Sim) LogHash() string { s.mu.Lock(); defer s.mu.Unlock(); return hex.EncodeToString(s.logH[:8]) }

// Probe counts an event of interest. Commutative, so safe from parallel
// goroutines of one step.
func (s *Sim) Probe(name string) { s.ProbeN(name, 1) }

func (s *Sim) ProbeN(name string, n int64) {
	s.mu.Lock()
	s.Probes[name] += n
	s.mu.Unlock()
}

// Violate records an oracle failure.
func (s *Sim) Violate(prop, class, format string, a ...any) {
	v := Violation{Property: prop, Class: class, Detail: fmt.Sprintf(format, a...)}
	s.mu.Lock()
	v.Step = s.Step
	s.Viol = append(s.Viol, v)
	s.logLocked("VIOLATION " + v.String())
	s.mu.Unlock()
}

// ViolateSig is Violate with a known-finding signature attached.
func (s *Sim) ViolateSig(prop, class, sig, format string, a ...any) {
	v := Violation{Property: prop, Class: class, Sig: sig, Detail: fmt.Sprintf(format, a...)}
	s.mu.Lock()
	v.Step = s.Step
	s.Viol = append(s.Viol, v)
	s.logLocked("VIOLATION " + v.String())
	s.mu.Unlock()
}

// Reattribute changes the property of violations recorded from index from
// onwards whose property is old.
func (s *Sim) Reattribute(from int, old, prop string) {
	s.mu.Lock()
	for i := from; i < len(s.Viol); i++ {
		if s.Viol[i].Property == old {
			s.Viol[i].Property = prop
		}
	}
	s.mu.Unlock()
}

// NewOpID returns the canonical identity for the n-th occurrence of
// (inst, inc, kind, key).
func (s *Sim) NewOpID(inst, inc int, kind, key string) string {
	base := fmt.Sprintf("i%d.%d:%s:%s", inst, inc, kind, key)
	s.mu.Lock()
	n := s.occ[base]
	s.occ[base] = n + 1
	s.mu.Unlock()
	return fmt.Sprintf("%s#%d", base, n)
}

// Park registers op and blocks the calling goroutine until the scheduler
// releases it. It returns the outcome. The block is a receive on a channel
// created by the caller's goroutine, which is inside the bubble: durably
// blocking for synctest.
func (s *Sim) Park(op *Op) string {
	op.ch = make(chan string)
	s.mu.Lock()
	s.parked[op.ID] = op
	s.mu.Unlock()
	out := <-op.ch
	if out == OutFreeze {
		select {}
	}
	return out
}

// Parked returns the parked operations sorted by canonical identity. To be
// called by the scheduler at quiescence.
func (s *Sim) Parked() []*Op {
	s.mu.Lock()
	defer s.mu.Unlock()
	ops := make([]*Op, 0, len(s.parked))
	for _, op := range s.parked {
		ops = append(ops, op)
	}
	sort.Slice(ops, func(i, j int) bool { return ops[i].ID < ops[j].ID })
	return ops
}

func (s *Sim) ParkedOp(id string) *Op {
	s.mu.Lock()
	defer s.mu.Unlock()
	return s.parked[id]
}

// Release lets a parked operation proceed with the given outcome.
func (s *Sim) Release(op *Op, out string) {
	s.mu.Lock()
	delete(s.parked, op.ID)
	s.mu.Unlock()
	op.ch <- out
}

// Forget removes a parked operation without ever releasing it (crash).
func (s *Sim) Forget(op *Op) {
	s.mu.Lock()
	delete(s.parked, op.ID)
	s.mu.Unlock()
}

// ---------------------------------------------------------------------------
// Choosing

// Choose picks one of the enabled commands by weight.
func (s *Sim) Choose(cmds []WCmd) Cmd {
	w := make([]int, len(cmds))
	for i, c := range cmds {
		w[i] = c.W
	}
	return cmds[s.Rng.Pick(w)].Cmd
}

// ---------------------------------------------------------------------------
// Minimiser

// Minimise shrinks trace while test(trace) stays true, by delta debugging over
// the command list followed by per-command simplification through simplify,
// which returns simpler variants of one command (may be nil). budget bounds the
// number of test calls.
func Minimise(trace []Cmd, test func([]Cmd) bool, simplify func(Cmd) []Cmd, budget int) []Cmd {
	calls := 0
	try := func(t []Cmd) bool {
		if calls >= budget {
			return false
		}
		calls++
		return test(t)
	}
	cur := append([]Cmd(nil), trace...)
	// 1. drop suffixes (binary search for the shortest failing prefix is not
	// sound in general; do a geometric scan).
	for n := len(cur) / 2; n >= 1; n /= 2 {
		for len(cur) > n {
			cand := cur[:len(cur)-n]
			if try(cand) {
				cur = append([]Cmd(nil), cand...)
			} else {
				break
			}
		}
	}
	// 2. ddmin: drop chunks.
	for chunk := len(cur) / 2; chunk >= 1; chunk /= 2 {
		for i := 0; i+chunk <= len(cur); {
			cand := append(append([]Cmd(nil), cur[:i]...), cur[i+chunk:]...)
			if try(cand) {
				cur = cand
			} else {
				i += chunk
			}
		}
	}
	// 3. simplify single commands.
	if simplify != nil {
		for i := 0; i < len(cur); i++ {
			for _, alt := range simplify(cur[i]) {
				cand := append([]Cmd(nil), cur...)
				cand[i] = alt
				if try(cand) {
					cur = cand
					break
				}
			}
		}
	}
	// 4. one more single-element pass.
	for i := 0; i < len(cur); {
		cand := append(append([]Cmd(nil), cur[:i]...), cur[i+1:]...)
		if try(cand) {
			cur = cand
		} else {
			i++
		}
	}
	return cur
}

// ---------------------------------------------------------------------------
// Results

// RunResult is what a worker reports per run (one JSON line).
type RunResult struct {
	Seed       uint64           `json:"seed"`
	Profile    json.RawMessage  `json:"profile,omitempty"`
	ProfileTag string           `json:"ptag,omitempty"`
	Steps      int              `json:"steps"`
	SimMillis  int64            `json:"sim_ms"`
	LogHash    string           `json:"log_hash"`
	SchedHash  string           `json:"sched_hash"`
	Nontrivial bool             `json:"nontrivial"`
	Faults     map[string]int64 `json:"faults,omitempty"`
	Probes     map[string]int64 `json:"probes,omitempty"`
	Violations []Violation      `json:"violations,omitempty"`
	Infra      string           `json:"infra,omitempty"`
	WallMicros int64            `json:"wall_us"`
	Sample     []string         `json:"sample,omitempty"`
}

// SchedHash hashes the command list (the schedule and fault sequence).
func SchedHash(trace []Cmd) string {
	h := sha256.New()
	for _, c := range trace {
		h.Write([]byte(c.String()))
		h.Write([]byte{'\n'})
	}
	return hex.EncodeToString(h.Sum(nil)[:8])
}

// FaultCounts tallies the fault-like commands of a trace by kind.
func FaultCounts(trace []Cmd) map[string]int64 {
	m := map[string]int64{}
	for _, c := range trace {
		switch {
		case c.A == "rel" && c.Out != OutOK:
			out := c.Out
			if i := strings.IndexByte(out, ':'); i >= 0 {
				out = out[:i] // verdict without its argument (clientsim)
			}
			m["op:"+out+":"+kindOf(c.Op)]++
		case c.A == "rel":
		case strings.HasPrefix(c.A, "start"), c.A == "tick", c.A == "submit":
		default:
			m[c.A]++
		}
	}
	return m
}

func kindOf(opID string) string {
	p := strings.SplitN(opID, ":", 3)
	if len(p) >= 2 {
		return p[1]
	}
	return "?"
}
