package ref

import (
	"bytes"
	"encoding/binary"
	"errors"
	"fmt"
)

// Entry is a Static CT log entry (TileLeaf) in the reference model.
type Entry struct {
	Timestamp     int64
	IsPrecert     bool
	IssuerKeyHash [32]byte
	Cert          []byte // x509 certificate, or defanged TBS for precerts
	PreCert       []byte
	Fingerprints  [][32]byte
	Index         int64
}

func put24(b []byte, n int) []byte { return append(b, byte(n>>16), byte(n>>8), byte(n)) }

// timestampedEntry appends the RFC 6962 TimestampedEntry with the Static CT
// leaf_index extension.
func (e *Entry) timestampedEntry(b []byte) []byte {
	b = binary.BigEndian.AppendUint64(b, uint64(e.Timestamp))
	if !e.IsPrecert {
		b = append(b, 0, 0)
		b = put24(b, len(e.Cert))
		b = append(b, e.Cert...)
	} else {
		b = append(b, 0, 1)
		b = append(b, e.IssuerKeyHash[:]...)
		b = put24(b, len(e.Cert))
		b = append(b, e.Cert...)
	}
	// CtExtensions<0..2^16-1>: one extension, type 0, opaque<0..2^16-1> = uint40
	b = append(b, 0, 8) // total length: 1 + 2 + 5
	b = append(b, 0)    // leaf_index
	b = append(b, 0, 5)
	b = append(b, byte(e.Index>>32), byte(e.Index>>24), byte(e.Index>>16), byte(e.Index>>8), byte(e.Index))
	return b
}

// MerkleTreeLeaf returns the RFC 6962 MerkleTreeLeaf bytes.
func (e *Entry) MerkleTreeLeaf() []byte {
	b := []byte{0, 0}
	return e.timestampedEntry(b)
}

func (e *Entry) LeafHash() Hash { return LeafHash(e.MerkleTreeLeaf()) }

// AppendTileLeaf appends the Static CT TileLeaf encoding.
func (e *Entry) AppendTileLeaf(b []byte) []byte {
	b = e.timestampedEntry(b)
	if e.IsPrecert {
		b = put24(b, len(e.PreCert))
		b = append(b, e.PreCert...)
	}
	b = append(b, byte(len(e.Fingerprints)*32>>8), byte(len(e.Fingerprints)*32))
	for _, f := range e.Fingerprints {
		b = append(b, f[:]...)
	}
	return b
}

type rd struct {
	b   []byte
	err error
}

func (r *rd) take(n int) []byte {
	if r.err != nil {
		return nil
	}
	if n < 0 || len(r.b) < n {
		r.err = errors.New("short")
		return nil
	}
	x := r.b[:n]
	r.b = r.b[n:]
	return x
}
func (r *rd) u8() int {
	x := r.take(1)
	if x == nil {
		return 0
	}
	return int(x[0])
}
func (r *rd) u16() int {
	x := r.take(2)
	if x == nil {
		return 0
	}
	return int(x[0])<<8 | int(x[1])
}
func (r *rd) u24() int {
	x := r.take(3)
	if x == nil {
		return 0
	}
	return int(x[0])<<16 | int(x[1])<<8 | int(x[2])
}
func (r *rd) u64() uint64 {
	x := r.take(8)
	if x == nil {
		return 0
	}
	return binary.BigEndian.Uint64(x)
}

// DecodeTileLeaf strictly decodes one TileLeaf and returns the rest.
func DecodeTileLeaf(b []byte) (*Entry, []byte, error) {
	r := &rd{b: b}
	e := &Entry{}
	ts := r.u64()
	if ts > 1<<63-1 {
		return nil, nil, errors.New("timestamp out of range")
	}
	e.Timestamp = int64(ts)
	switch typ := r.u16(); typ {
	case 0:
		e.Cert = bytes.Clone(r.take(r.u24()))
	case 1:
		e.IsPrecert = true
		copy(e.IssuerKeyHash[:], r.take(32))
		e.Cert = bytes.Clone(r.take(r.u24()))
	default:
		if r.err == nil {
			return nil, nil, fmt.Errorf("unknown entry type %d", typ)
		}
	}
	ext := &rd{b: r.take(r.u16())}
	if r.err != nil {
		return nil, nil, r.err
	}
	if et := ext.u8(); et != 0 {
		return nil, nil, errors.New("unexpected extension type")
	}
	idx := &rd{b: ext.take(ext.u16())}
	if ext.err != nil || len(ext.b) != 0 {
		return nil, nil, errors.New("malformed extensions")
	}
	ib := idx.take(5)
	if idx.err != nil || len(idx.b) != 0 {
		return nil, nil, errors.New("malformed leaf index")
	}
	e.Index = int64(ib[0])<<32 | int64(ib[1])<<24 | int64(ib[2])<<16 | int64(ib[3])<<8 | int64(ib[4])
	if e.IsPrecert {
		e.PreCert = bytes.Clone(r.take(r.u24()))
	}
	fp := r.take(r.u16())
	if r.err != nil {
		return nil, nil, r.err
	}
	if len(fp)%32 != 0 {
		return nil, nil, errors.New("fingerprints not a multiple of 32")
	}
	for len(fp) > 0 {
		var f [32]byte
		copy(f[:], fp)
		e.Fingerprints = append(e.Fingerprints, f)
		fp = fp[32:]
	}
	return e, r.b, nil
}

// DecodeDataTile decodes exactly n entries and requires no trailing bytes.
func DecodeDataTile(b []byte, n int) ([]*Entry, error) {
	var out []*Entry
	for i := 0; i < n; i++ {
		e, rest, err := DecodeTileLeaf(b)
		if err != nil {
			return nil, fmt.Errorf("entry %d: %w", i, err)
		}
		out = append(out, e)
		b = rest
	}
	if len(b) != 0 {
		return nil, fmt.Errorf("%d trailing bytes after %d entries", len(b), n)
	}
	return out, nil
}

func (e *Entry) Equal(o *Entry) bool {
	if e.Timestamp != o.Timestamp || e.IsPrecert != o.IsPrecert || e.IssuerKeyHash != o.IssuerKeyHash ||
		!bytes.Equal(e.Cert, o.Cert) || !bytes.Equal(e.PreCert, o.PreCert) || e.Index != o.Index ||
		len(e.Fingerprints) != len(o.Fingerprints) {
		return false
	}
	for i := range e.Fingerprints {
		if e.Fingerprints[i] != o.Fingerprints[i] {
			return false
		}
	}
	return true
}
