// Package ref is an independent reference model of a Static CT log and of the
// tlog witness/mirror protocols, written from RFC 6962, c2sp.org/static-ct-api,
// c2sp.org/tlog-tiles, c2sp.org/signed-note and c2sp.org/tlog-checkpoint. It
// calls nothing from golang.org/x/mod/sumdb/tlog, torchwood's tile code or
// sunlight's codec, so that an error in those cannot cancel out.
package ref

import (
	"crypto/sha256"
	"errors"
	"fmt"
)

type Hash [32]byte

func LeafHash(data []byte) Hash {
	h := sha256.New()
	h.Write([]byte{0})
	h.Write(data)
	var out Hash
	copy(out[:], h.Sum(nil))
	return out
}

func NodeHash(l, r Hash) Hash {
	h := sha256.New()
	h.Write([]byte{1})
	h.Write(l[:])
	h.Write(r[:])
	var out Hash
	copy(out[:], h.Sum(nil))
	return out
}

func EmptyRoot() Hash { return sha256.Sum256(nil) }

// Tree is an append-only Merkle tree that keeps every complete-subtree hash:
// level[k][i] is the hash of leaves [i<<k, (i+1)<<k).
type Tree struct {
	level [][]Hash
}

func (t *Tree) Size() int64 {
	if len(t.level) == 0 {
		return 0
	}
	return int64(len(t.level[0]))
}

func (t *Tree) Append(leaf Hash) {
	if len(t.level) == 0 {
		t.level = append(t.level, nil)
	}
	t.level[0] = append(t.level[0], leaf)
	for k := 0; ; k++ {
		n := len(t.level[k])
		if n%2 != 0 {
			break
		}
		if len(t.level) == k+1 {
			t.level = append(t.level, nil)
		}
		t.level[k+1] = append(t.level[k+1], NodeHash(t.level[k][n-2], t.level[k][n-1]))
	}
}

// Clone returns a copy sharing no mutable state beyond size n.
func (t *Tree) Prefix(n int64) *Tree {
	c := &Tree{}
	for k := range t.level {
		m := n >> uint(k)
		if m == 0 {
			break
		}
		c.level = append(c.level, append([]Hash(nil), t.level[k][:m]...))
	}
	return c
}

// Node returns the hash of the complete subtree at the given level and index.
func (t *Tree) Node(level int, idx int64) (Hash, bool) {
	if level < 0 || level >= len(t.level) || idx < 0 || idx >= int64(len(t.level[level])) {
		return Hash{}, false
	}
	return t.level[level][idx], true
}

// RangeHash returns MTH(D[lo:hi]) per RFC 6962 §2.1 for 0 <= lo < hi <= size.
func (t *Tree) RangeHash(lo, hi int64) Hash {
	n := hi - lo
	if n == 1 {
		return t.level[0][lo]
	}
	// largest power of two strictly smaller than n
	k := 0
	for (int64(1) << uint(k+1)) < n {
		k++
	}
	p := int64(1) << uint(k)
	// If lo is aligned and the left part is a complete stored subtree use it.
	var left Hash
	if lo%p == 0 {
		left = t.level[k][lo/p]
	} else {
		left = t.RangeHash(lo, lo+p)
	}
	return NodeHash(left, t.RangeHash(lo+p, hi))
}

// Root returns MTH(D[0:n]).
func (t *Tree) Root(n int64) Hash {
	if n == 0 {
		return EmptyRoot()
	}
	return t.RangeHash(0, n)
}

// MTH computes the root of a list of leaf hashes directly from the
// definition (used to cross-check Tree).
func MTH(leaves []Hash) Hash {
	n := len(leaves)
	if n == 0 {
		return EmptyRoot()
	}
	if n == 1 {
		return leaves[0]
	}
	k := 1
	for k*2 < n {
		k *= 2
	}
	return NodeHash(MTH(leaves[:k]), MTH(leaves[k:]))
}

// ConsistencyProof returns PROOF(m, D[n]) per RFC 6962 §2.1.2, 0 < m <= n.
func (t *Tree) ConsistencyProof(m, n int64) []Hash {
	if m == n || m == 0 {
		return nil
	}
	return t.subproof(m, 0, n, true)
}

func (t *Tree) subproof(m, lo, hi int64, b bool) []Hash {
	n := hi - lo
	if m == n {
		if b {
			return nil
		}
		return []Hash{t.RangeHash(lo, hi)}
	}
	k := int64(1)
	for k*2 < n {
		k *= 2
	}
	if m <= k {
		p := t.subproof(m, lo, lo+k, b)
		return append(p, t.RangeHash(lo+k, hi))
	}
	p := t.subproof(m-k, lo+k, hi, false)
	return append(p, t.RangeHash(lo, lo+k))
}

// VerifyConsistency checks a consistency proof per RFC 9162 §2.1.4.2.
func VerifyConsistency(m, n int64, rootM, rootN Hash, proof []Hash) error {
	if m < 0 || n < m {
		return errors.New("bad sizes")
	}
	if m == n {
		if len(proof) != 0 {
			return errors.New("non-empty proof for equal sizes")
		}
		if rootM != rootN {
			return errors.New("roots differ at equal size")
		}
		return nil
	}
	if m == 0 {
		if len(proof) != 0 {
			return errors.New("non-empty proof from empty tree")
		}
		return nil
	}
	path := proof
	if m&(m-1) == 0 { // power of two: prepend first_hash
		path = append([]Hash{rootM}, proof...)
	}
	if len(path) == 0 {
		return errors.New("empty proof")
	}
	fn, sn := m-1, n-1
	for fn&1 == 1 {
		fn >>= 1
		sn >>= 1
	}
	fr, sr := path[0], path[0]
	for _, c := range path[1:] {
		if sn == 0 {
			return errors.New("proof too long")
		}
		if fn&1 == 1 || fn == sn {
			fr = NodeHash(c, fr)
			sr = NodeHash(c, sr)
			for fn&1 == 0 && fn != 0 {
				fn >>= 1
				sn >>= 1
			}
		} else {
			sr = NodeHash(sr, c)
		}
		fn >>= 1
		sn >>= 1
	}
	if sn != 0 {
		return errors.New("proof too short")
	}
	if fr != rootM {
		return errors.New("old root mismatch")
	}
	if sr != rootN {
		return errors.New("new root mismatch")
	}
	return nil
}

// ValidSubtree reports whether [lo,hi) is a subtree in the sense of
// c2sp.org/tlog-cosignature subtrees: hi-lo is at most the largest power of two
// dividing lo (or anything when lo==0 ... see below). The definition used by
// the tlog-mirror/witness specs: a subtree [start,end) is valid if start is a
// multiple of the smallest power of two >= end-start.
func ValidSubtree(lo, hi int64) bool {
	if lo < 0 || hi <= lo {
		return false
	}
	n := hi - lo
	p := int64(1)
	for p < n {
		p <<= 1
	}
	return lo%p == 0
}

// SubtreeHash returns the hash of subtree [lo,hi): MTH(D[lo:hi]).
func (t *Tree) SubtreeHash(lo, hi int64) Hash { return t.RangeHash(lo, hi) }

func (h Hash) String() string { return fmt.Sprintf("%x", h[:6]) }
