package ref

import (
	"fmt"
	"strconv"
	"strings"
)

const TileWidth = 256

// TileCoord names a tile: Level >= 0 hash tile, -1 data, -2 names; W in 1..256.
type TileCoord struct {
	Level int
	N     int64
	W     int
}

func nPath(n int64) string {
	s := fmt.Sprintf("%03d", n%1000)
	for n >= 1000 {
		n /= 1000
		s = fmt.Sprintf("x%03d/%s", n%1000, s)
	}
	return s
}

// Path returns the c2sp.org/static-ct-api path of the tile.
func (c TileCoord) Path() string {
	var p string
	switch c.Level {
	case -1:
		p = "tile/data/" + nPath(c.N)
	case -2:
		p = "tile/names/" + nPath(c.N)
	default:
		p = "tile/" + strconv.Itoa(c.Level) + "/" + nPath(c.N)
	}
	if c.W != TileWidth {
		p += ".p/" + strconv.Itoa(c.W)
	}
	return p
}

// ParsePath is the inverse of Path; ok=false for anything non-canonical.
func ParsePath(p string) (TileCoord, bool) {
	rest, ok := strings.CutPrefix(p, "tile/")
	if !ok {
		return TileCoord{}, false
	}
	var c TileCoord
	i := strings.IndexByte(rest, '/')
	if i < 0 {
		return TileCoord{}, false
	}
	lvl := rest[:i]
	rest = rest[i+1:]
	switch lvl {
	case "data":
		c.Level = -1
	case "names":
		c.Level = -2
	default:
		l, err := strconv.Atoi(lvl)
		if err != nil || l < 0 || l > 63 || strconv.Itoa(l) != lvl {
			return TileCoord{}, false
		}
		c.Level = l
	}
	c.W = TileWidth
	if j := strings.Index(rest, ".p/"); j >= 0 {
		w, err := strconv.Atoi(rest[j+3:])
		if err != nil || w < 1 || w > 255 || strconv.Itoa(w) != rest[j+3:] {
			return TileCoord{}, false
		}
		c.W = w
		rest = rest[:j]
	}
	parts := strings.Split(rest, "/")
	for k, part := range parts {
		last := k == len(parts)-1
		if !last {
			if !strings.HasPrefix(part, "x") {
				return TileCoord{}, false
			}
			part = part[1:]
		}
		if len(part) != 3 {
			return TileCoord{}, false
		}
		d, err := strconv.Atoi(part)
		if err != nil || d < 0 {
			return TileCoord{}, false
		}
		c.N = c.N*1000 + int64(d)
	}
	if c.Path() != p {
		return TileCoord{}, false
	}
	return c, true
}

// RequiredTiles lists the tiles a tree of size n consists of: for every level,
// all full tiles and the right-edge partial one. Levels -1 and -2 mirror level 0.
func RequiredTiles(n int64, withNames bool) []TileCoord {
	var out []TileCoord
	for L := 0; ; L++ {
		nodes := n >> uint(8*L)
		if nodes == 0 {
			break
		}
		full := nodes >> 8
		for i := int64(0); i < full; i++ {
			out = append(out, TileCoord{L, i, TileWidth})
		}
		if w := int(nodes & 255); w != 0 {
			out = append(out, TileCoord{L, full, w})
		}
		if L == 0 {
			for _, lvl := range []int{-1, -2} {
				if lvl == -2 && !withNames {
					continue
				}
				for i := int64(0); i < full; i++ {
					out = append(out, TileCoord{lvl, i, TileWidth})
				}
				if w := int(nodes & 255); w != 0 {
					out = append(out, TileCoord{lvl, full, w})
				}
			}
		}
	}
	return out
}

// EdgeTiles lists only the right-most tile of each level of a tree of size n
// plus all tiles in [from, n) that a round growing the tree from `from` to n
// must produce.
func NewTiles(from, n int64) []TileCoord {
	var out []TileCoord
	for L := 0; ; L++ {
		nodes := n >> uint(8*L)
		old := from >> uint(8*L)
		if nodes == 0 {
			break
		}
		if nodes == old {
			continue
		}
		for i := old >> 8; i <= (nodes-1)>>8; i++ {
			w := TileWidth
			if i == nodes>>8 {
				w = int(nodes & 255)
			}
			out = append(out, TileCoord{L, i, w})
		}
	}
	return out
}

// HashTileBytes renders the expected bytes of a hash tile from the tree.
func (t *Tree) HashTileBytes(c TileCoord) ([]byte, bool) {
	if c.Level < 0 {
		return nil, false
	}
	b := make([]byte, 0, 32*c.W)
	for i := 0; i < c.W; i++ {
		h, ok := t.Node(8*c.Level, c.N*TileWidth+int64(i))
		if !ok {
			return nil, false
		}
		b = append(b, h[:]...)
	}
	return b, true
}

// DataTileBytes renders the expected (uncompressed) bytes of a data tile.
func DataTileBytes(entries []*Entry, c TileCoord) ([]byte, bool) {
	lo := c.N * TileWidth
	hi := lo + int64(c.W)
	if hi > int64(len(entries)) {
		return nil, false
	}
	var b []byte
	for _, e := range entries[lo:hi] {
		b = e.AppendTileLeaf(b)
	}
	return b, true
}
