package ref

import (
	"bytes"
	"crypto/ecdsa"
	"crypto/sha256"
	"crypto/x509"
	"encoding/base64"
	"encoding/binary"
	"errors"
	"fmt"
	"strconv"
	"strings"
)

// NoteSig is one signature line of a signed note.
type NoteSig struct {
	Name    string
	KeyHash uint32
	Sig     []byte // without the 4-byte key hash
}

// Note is a parsed c2sp.org/signed-note.
type Note struct {
	Text string // including the final newline
	Sigs []NoteSig
}

// ParseNote parses a signed note strictly.
func ParseNote(b []byte) (*Note, error) {
	i := bytes.LastIndex(b, []byte("\n\n"))
	if i < 0 {
		return nil, errors.New("no signature separator")
	}
	text := string(b[:i+1])
	sigs := string(b[i+2:])
	if text == "" || !strings.HasSuffix(text, "\n") {
		return nil, errors.New("malformed text")
	}
	if sigs == "" || !strings.HasSuffix(sigs, "\n") {
		return nil, errors.New("malformed signatures")
	}
	n := &Note{Text: text}
	for _, line := range strings.Split(strings.TrimSuffix(sigs, "\n"), "\n") {
		rest, ok := strings.CutPrefix(line, "— ")
		if !ok {
			return nil, errors.New("malformed signature line")
		}
		j := strings.IndexByte(rest, ' ')
		if j <= 0 {
			return nil, errors.New("malformed signature line")
		}
		name, b64 := rest[:j], rest[j+1:]
		raw, err := base64.StdEncoding.DecodeString(b64)
		if err != nil || len(raw) < 5 {
			return nil, errors.New("malformed signature base64")
		}
		n.Sigs = append(n.Sigs, NoteSig{Name: name, KeyHash: binary.BigEndian.Uint32(raw), Sig: raw[4:]})
	}
	return n, nil
}

// Checkpoint is a parsed c2sp.org/tlog-checkpoint body.
type Checkpoint struct {
	Origin    string
	Size      int64
	Root      Hash
	Extension []string
}

func ParseCheckpointText(text string) (*Checkpoint, error) {
	if !strings.HasSuffix(text, "\n") {
		return nil, errors.New("no final newline")
	}
	lines := strings.Split(strings.TrimSuffix(text, "\n"), "\n")
	if len(lines) < 3 {
		return nil, errors.New("too few lines")
	}
	c := &Checkpoint{Origin: lines[0]}
	if c.Origin == "" {
		return nil, errors.New("empty origin")
	}
	n, err := strconv.ParseInt(lines[1], 10, 64)
	if err != nil || n < 0 || strconv.FormatInt(n, 10) != lines[1] {
		return nil, errors.New("malformed size")
	}
	c.Size = n
	h, err := base64.StdEncoding.DecodeString(lines[2])
	if err != nil || len(h) != 32 {
		return nil, errors.New("malformed root")
	}
	copy(c.Root[:], h)
	c.Extension = lines[3:]
	return c, nil
}

func (c *Checkpoint) Text() string {
	s := c.Origin + "\n" + strconv.FormatInt(c.Size, 10) + "\n" + base64.StdEncoding.EncodeToString(c.Root[:]) + "\n"
	for _, e := range c.Extension {
		s += e + "\n"
	}
	return s
}

// RFC6962KeyHash is the note key hash of a Static CT log key.
func RFC6962KeyHash(name string, pub *ecdsa.PublicKey) (uint32, error) {
	spki, err := x509.MarshalPKIXPublicKey(pub)
	if err != nil {
		return 0, err
	}
	id := sha256.Sum256(spki)
	h := sha256.New()
	h.Write([]byte(name))
	h.Write([]byte{'\n', 0x05})
	h.Write(id[:])
	return binary.BigEndian.Uint32(h.Sum(nil)), nil
}

// TreeHeadInput rebuilds the RFC 6962 TreeHeadSignature input.
func TreeHeadInput(timestamp uint64, size uint64, root Hash) []byte {
	b := []byte{0 /* v1 */, 1 /* tree_hash */}
	b = binary.BigEndian.AppendUint64(b, timestamp)
	b = binary.BigEndian.AppendUint64(b, size)
	return append(b, root[:]...)
}

// VerifiedSTH is the result of independently verifying a Static CT checkpoint.
type VerifiedSTH struct {
	Checkpoint
	Timestamp int64
	SigBytes  []byte // the DigitallySigned bytes (deterministic part)
	NumSigs   int
}

// VerifyLogCheckpoint verifies b as a checkpoint of the log (name, pub): the
// note parses, the body is a checkpoint with that origin and no extension
// lines, and exactly one signature line carries the log's key hash and name and
// verifies as an RFC 6962 TreeHeadSignature with the timestamp embedded.
func VerifyLogCheckpoint(b []byte, name string, pub *ecdsa.PublicKey) (*VerifiedSTH, error) {
	n, err := ParseNote(b)
	if err != nil {
		return nil, err
	}
	c, err := ParseCheckpointText(n.Text)
	if err != nil {
		return nil, err
	}
	if c.Origin != name {
		return nil, fmt.Errorf("origin %q != %q", c.Origin, name)
	}
	if len(c.Extension) != 0 {
		return nil, errors.New("extension lines present")
	}
	kh, err := RFC6962KeyHash(name, pub)
	if err != nil {
		return nil, err
	}
	var out *VerifiedSTH
	for _, s := range n.Sigs {
		if s.Name != name || s.KeyHash != kh {
			continue
		}
		if out != nil {
			return nil, errors.New("duplicate log signature")
		}
		if len(s.Sig) < 8+4 {
			return nil, errors.New("short RFC 6962 note signature")
		}
		ts := binary.BigEndian.Uint64(s.Sig[:8])
		ds := s.Sig[8:]
		if ds[0] != 4 || ds[1] != 3 {
			return nil, errors.New("unexpected signature algorithm")
		}
		l := int(ds[2])<<8 | int(ds[3])
		if len(ds) != 4+l {
			return nil, errors.New("trailing bytes in signature")
		}
		digest := sha256.Sum256(TreeHeadInput(ts, uint64(c.Size), c.Root))
		if !ecdsa.VerifyASN1(pub, digest[:], ds[4:]) {
			return nil, errors.New("tree head signature does not verify")
		}
		if ts > 1<<63-1 {
			return nil, errors.New("timestamp out of range")
		}
		out = &VerifiedSTH{Checkpoint: *c, Timestamp: int64(ts), SigBytes: bytes.Clone(ds), NumSigs: len(n.Sigs)}
	}
	if out == nil {
		return nil, errors.New("no signature by the log key")
	}
	return out, nil
}
