// Package corpus builds a deterministic certificate corpus: a small CA
// hierarchy and leaf certificates / precertificates derived from an index.
// Keys come from filippo.io/keygen and signatures are RFC 6979, so the bytes
// are a pure function of the parameters.
package corpus

import (
	"crypto"
	"crypto/ecdsa"
	"crypto/elliptic"
	"crypto/sha256"
	"crypto/x509"
	"crypto/x509/pkix"
	"encoding/asn1"
	"fmt"
	"io"
	"math/big"
	"net"
	"sync"
	"time"

	"filippo.io/keygen"
)

// Epoch is the instant at which every synctest bubble starts.
var Epoch = time.Date(2000, 1, 1, 0, 0, 0, 0, time.UTC)

type detSigner struct{ k *ecdsa.PrivateKey }

func (d detSigner) Public() crypto.PublicKey { return d.k.Public() }
func (d detSigner) Sign(_ io.Reader, digest []byte, opts crypto.SignerOpts) ([]byte, error) {
	return d.k.Sign(nil, digest, opts)
}

type zeroReader struct{}

func (zeroReader) Read(p []byte) (int, error) {
	for i := range p {
		p[i] = 0
	}
	return len(p), nil
}

// Key returns the deterministic P-256 key for a label.
func Key(label string) *ecdsa.PrivateKey {
	s := sha256.Sum256([]byte("verifsim key " + label))
	k, err := keygen.ECDSA(elliptic.P256(), s[:])
	if err != nil {
		panic(err)
	}
	return k
}

type CA struct {
	Cert *x509.Certificate
	DER  []byte
	Key  *ecdsa.PrivateKey
}

func (c *CA) SPKIHash() [32]byte { return sha256.Sum256(c.Cert.RawSubjectPublicKeyInfo) }

var (
	OIDPoison     = asn1.ObjectIdentifier{1, 3, 6, 1, 4, 1, 11129, 2, 4, 3}
	OIDPreIssuer  = asn1.ObjectIdentifier{1, 3, 6, 1, 4, 1, 11129, 2, 4, 4}
	OIDSCTList    = asn1.ObjectIdentifier{1, 3, 6, 1, 4, 1, 11129, 2, 4, 2}
)

func mkCA(name string, serial int64, parent *CA, preIssuer bool) *CA {
	k := Key("ca " + name)
	t := &x509.Certificate{
		SerialNumber:          big.NewInt(serial),
		Subject:               pkix.Name{CommonName: name, Organization: []string{"Verif Sim"}},
		NotBefore:             Epoch.AddDate(-5, 0, 0),
		NotAfter:              Epoch.AddDate(20, 0, 0),
		IsCA:                  true,
		BasicConstraintsValid: true,
		KeyUsage:              x509.KeyUsageCertSign | x509.KeyUsageDigitalSignature,
	}
	if preIssuer {
		t.UnknownExtKeyUsage = []asn1.ObjectIdentifier{OIDPreIssuer}
	}
	pt, pk := t, k
	if parent != nil {
		pt, pk = parent.Cert, parent.Key
	}
	der, err := x509.CreateCertificate(zeroReader{}, t, pt, k.Public(), detSigner{pk})
	if err != nil {
		panic(err)
	}
	c, err := x509.ParseCertificate(der)
	if err != nil {
		panic(err)
	}
	return &CA{Cert: c, DER: der, Key: k}
}

type Corpus struct {
	Root, Root2 *CA   // Root2 is a second root (not trusted unless configured)
	Inter       []*CA // intermediates under Root: Inter[0], Inter[1] (under Inter[0])
	Inter2      *CA   // intermediate under Root2
	Inter0b     *CA   // Inter[0] re-issued: same subject and key, another certificate
	PreIssuer   *CA   // precertificate signing certificate under Inter[0]
	LeafKey     *ecdsa.PrivateKey

	mu    sync.Mutex
	cache map[string][]byte
}

var (
	once sync.Once
	corp *Corpus
)

func Get() *Corpus {
	once.Do(func() {
		c := &Corpus{cache: map[string][]byte{}}
		c.Root = mkCA("Verif Root 1", 1, nil, false)
		c.Root2 = mkCA("Verif Root 2", 2, nil, false)
		i0 := mkCA("Verif Intermediate A", 10, c.Root, false)
		i1 := mkCA("Verif Intermediate B", 11, i0, false)
		c.Inter = []*CA{i0, i1}
		c.Inter2 = mkCA("Verif Intermediate Z", 12, c.Root2, false)
		c.Inter0b = mkCA("Verif Intermediate A", 110, c.Root, false)
		c.PreIssuer = mkCA("Verif Precert Signer", 13, i0, true)
		c.LeafKey = Key("leaf")
		corp = c
	})
	return corp
}

// LeafOpts selects the shape of a generated end-entity certificate.
type LeafOpts struct {
	Issuer    *CA
	Precert   bool // add the CT poison extension
	NotAfter  time.Time
	NotBefore time.Time
	EKU       []x509.ExtKeyUsage // nil means serverAuth
	NoEKU     bool
	WithIP    bool
	WithSCT   bool // embed a (dummy) SCT list extension
	// BadPoison adds a malformed CT poison extension instead of a good one:
	// 1 = not critical, 2 = critical with a value other than ASN.1 NULL.
	BadPoison int
}

// Leaf returns a deterministic end-entity certificate for index i.
func (c *Corpus) Leaf(i int, o LeafOpts) []byte {
	if o.Issuer == nil {
		o.Issuer = c.Inter[0]
	}
	if o.NotAfter.IsZero() {
		o.NotAfter = Epoch.AddDate(0, 6, 0)
	}
	if o.NotBefore.IsZero() {
		o.NotBefore = Epoch.AddDate(0, 0, -1)
	}
	key := fmt.Sprintf("%d|%s|%v|%d|%d|%v|%v|%v|%v|%d", i, o.Issuer.Cert.Subject.CommonName, o.Precert,
		o.NotAfter.Unix(), o.NotBefore.Unix(), o.EKU, o.NoEKU, o.WithIP, o.WithSCT, o.BadPoison)
	c.mu.Lock()
	if b, ok := c.cache[key]; ok {
		c.mu.Unlock()
		return b
	}
	c.mu.Unlock()
	name := fmt.Sprintf("leaf%d.example.com", i)
	t := &x509.Certificate{
		SerialNumber: big.NewInt(int64(1000 + i)),
		Subject:      pkix.Name{CommonName: name, Organization: []string{"Org " + fmt.Sprint(i%7)}, Country: []string{"IT"}},
		NotBefore:    o.NotBefore,
		NotAfter:     o.NotAfter,
		KeyUsage:     x509.KeyUsageDigitalSignature,
		DNSNames:     []string{name, "www." + name},
	}
	if !o.NoEKU {
		t.ExtKeyUsage = o.EKU
		if t.ExtKeyUsage == nil {
			t.ExtKeyUsage = []x509.ExtKeyUsage{x509.ExtKeyUsageServerAuth}
		}
	}
	if o.WithIP {
		t.IPAddresses = []net.IP{net.IPv4(192, 0, 2, byte(i))}
	}
	if o.Precert {
		t.ExtraExtensions = append(t.ExtraExtensions, pkix.Extension{Id: OIDPoison, Critical: true, Value: []byte{0x05, 0x00}})
	}
	switch o.BadPoison {
	case 1:
		t.ExtraExtensions = append(t.ExtraExtensions, pkix.Extension{Id: OIDPoison, Critical: false, Value: []byte{0x05, 0x00}})
	case 2:
		t.ExtraExtensions = append(t.ExtraExtensions, pkix.Extension{Id: OIDPoison, Critical: true, Value: []byte{0x04, 0x00}})
	}
	if o.WithSCT {
		// SignedCertificateTimestampList: OCTET STRING wrapping a TLS list with one
		// opaque SCT. Content is never verified by sunlight.
		sct := make([]byte, 1+32+8+2+4+8)
		inner := append([]byte{0, byte(len(sct) + 2), 0, byte(len(sct))}, sct...)
		val, _ := asn1.Marshal(inner)
		t.ExtraExtensions = append(t.ExtraExtensions, pkix.Extension{Id: OIDSCTList, Value: val})
	}
	der, err := x509.CreateCertificate(zeroReader{}, t, o.Issuer.Cert, c.LeafKey.Public(), detSigner{o.Issuer.Key})
	if err != nil {
		panic(err)
	}
	c.mu.Lock()
	c.cache[key] = der
	c.mu.Unlock()
	return der
}

// TBS returns the RawTBSCertificate of a DER certificate.
func TBS(der []byte) []byte {
	c, err := x509.ParseCertificate(der)
	if err != nil {
		// certificates with a critical poison extension still parse in crypto/x509
		panic(err)
	}
	return c.RawTBSCertificate
}
