// Package dirgen produces on-disk log, witness and mirror directories with the
// real sequencer, witness and LocalBackend, for the harnesses of the commands
// that only read such directories (skylight, partial-aftersun).
package dirgen

import (
	"bytes"
	"context"
	"crypto/ecdsa"
	"crypto/ed25519"
	"crypto/sha256"
	"crypto/x509"
	"encoding/base64"
	"encoding/binary"
	"encoding/json"
	"errors"
	"fmt"
	"io"
	"log/slog"
	"net/http/httptest"
	"os"
	"path/filepath"
	"sync"
	"time"

	"filippo.io/mldsa"
	"filippo.io/sunlight/internal/ctlog"
	"filippo.io/sunlight/internal/verifsim/core"
	"filippo.io/sunlight/internal/verifsim/corpus"
	"filippo.io/sunlight/internal/verifsim/ref"
	"filippo.io/sunlight/internal/witness"
	"filippo.io/torchwood"
	"golang.org/x/mod/sumdb/note"
	"golang.org/x/mod/sumdb/tlog"
)

var Quiet = slog.New(slog.NewTextHandler(io.Discard, nil))

// MemLock is a trivial in-memory lock backend.
type MemLock struct {
	mu sync.Mutex
	M  map[[32]byte][]byte
}
type memCkpt struct {
	id [32]byte
	b  []byte
}

func NewMemLock() *MemLock             { return &MemLock{M: map[[32]byte][]byte{}} }
func (c *memCkpt) Bytes() []byte       { return c.b }
func (l *MemLock) Fetch(ctx context.Context, id [32]byte) (ctlog.LockedCheckpoint, error) {
	l.mu.Lock()
	defer l.mu.Unlock()
	b, ok := l.M[id]
	if !ok {
		return nil, ctlog.ErrLogNotFound
	}
	return &memCkpt{id, b}, nil
}
func (l *MemLock) Replace(ctx context.Context, old ctlog.LockedCheckpoint, new []byte) (ctlog.LockedCheckpoint, error) {
	l.mu.Lock()
	defer l.mu.Unlock()
	o := old.(*memCkpt)
	if !bytes.Equal(l.M[o.id], o.b) {
		return nil, errors.New("conflict")
	}
	l.M[o.id] = new
	return &memCkpt{o.id, new}, nil
}
func (l *MemLock) Create(ctx context.Context, id [32]byte, new []byte) error {
	l.mu.Lock()
	defer l.mu.Unlock()
	if _, ok := l.M[id]; ok {
		return errors.New("exists")
	}
	l.M[id] = new
	return nil
}

func Hash32(s string) []byte { h := sha256.Sum256([]byte(s)); return h[:] }

// LogDir is a Static CT log directory written by the real sequencer.
type LogDir struct {
	Dir       string
	Name      string
	Cfg       *ctlog.Config
	Lock      *MemLock
	Size      int64
	Root      [32]byte
	Timestamp int64
	Entries   []*ctlog.PendingLogEntry
	Log       *ctlog.Log
}

// BuildLog creates a log in dir and grows it through the given sizes, one
// sequencing round per size (leaving the partial tiles of each behind).
// The clock hook of ctlog must already be set by the caller.
func BuildLog(dir, cache, name, keyLabel string, sizes []int64, seed uint64) (*LogDir, error) {
	ctx := context.Background()
	be, err := ctlog.NewLocalBackend(ctx, dir, Quiet)
	if err != nil {
		return nil, err
	}
	wk, _ := mldsa.NewPrivateKey(mldsa.MLDSA44(), Hash32("witness key "+keyLabel))
	ld := &LogDir{Dir: dir, Name: name, Lock: NewMemLock()}
	ld.Cfg = &ctlog.Config{Name: name, Key: corpus.Key(keyLabel), WitnessKey: wk, Cache: cache, Backend: be, Lock: ld.Lock, Log: Quiet,
		NotAfterStart: corpus.Epoch, NotAfterLimit: corpus.Epoch.AddDate(100, 0, 0)}
	if err := ctlog.CreateLog(ctx, ld.Cfg); err != nil {
		return nil, err
	}
	l, err := ctlog.LoadLog(ctx, ld.Cfg)
	if err != nil {
		return nil, err
	}
	ld.Log = l
	r := core.NewRand(core.Mix(seed, 0xd1d1))
	c := corpus.Get()
	for _, s := range sizes {
		var waits []ctlog.VerifWaitFunc
		for int64(len(ld.Entries)) < s {
			k := len(ld.Entries)
			e := &ctlog.PendingLogEntry{}
			switch r.Intn(5) {
			case 0:
				e.Certificate = c.Leaf(k, corpus.LeafOpts{})
				e.Issuers = [][]byte{c.Inter[0].DER, c.Root.DER}
			case 1:
				pre := c.Leaf(k, corpus.LeafOpts{Precert: true})
				e.IsPrecert = true
				e.PreCertificate = pre
				e.Certificate = append([]byte(fmt.Sprintf("TBS%d:", k)), corpus.TBS(pre)...)
				e.IssuerKeyHash = c.Inter[0].SPKIHash()
				e.Issuers = [][]byte{c.Inter[0].DER}
			default:
				e.Certificate = []byte(fmt.Sprintf("entry-%d-%x", k, r.Uint64()))
			}
			ld.Entries = append(ld.Entries, e)
			ee := *e
			f, _ := l.VerifAddLeafToPool(ctx, &ee, false)
			waits = append(waits, f)
		}
		time.Sleep(2 * time.Millisecond)
		if err := l.VerifSequence(ctx); err != nil {
			return nil, err
		}
		for _, f := range waits {
			if _, err := f(ctx); err != nil {
				return nil, err
			}
		}
	}
	ld.Size, ld.Root, ld.Timestamp = l.VerifTree()
	return ld, nil
}

// LogJSON renders log.v3.json the way cmd/sunlight's schema has it.
func (ld *LogDir) LogJSON(endExclusive time.Time, final bool) []byte {
	pkix, _ := x509.MarshalPKIXPublicKey(ld.Cfg.Key.Public())
	m := map[string]any{
		"description":       ld.Name,
		"key":               pkix,
		"temporal_interval": map[string]string{"start_inclusive": corpus.Epoch.Format(time.RFC3339), "end_exclusive": endExclusive.Format(time.RFC3339)},
	}
	if final {
		m["final_tree_head"] = map[string]any{"sha256_root_hash": ld.Root[:], "tree_size": ld.Size, "timestamp": ld.Timestamp}
	}
	b, _ := json.MarshalIndent(m, "", "  ")
	return b
}

// ---------------------------------------------------------------------------
// witness / mirror directories through the real witness

type SrcLog struct {
	Origin  string
	Signer  note.Signer
	VKey    string
	Entries [][]byte
	Tree    *ref.Tree
}

func noteKeys(name string, seed []byte) (skey, vkey string) {
	priv := ed25519.NewKeyFromSeed(seed)
	pub := priv.Public().(ed25519.PublicKey)
	pubkey := append([]byte{1}, pub...)
	h := sha256.New()
	h.Write([]byte(name))
	h.Write([]byte("\n"))
	h.Write(pubkey)
	kh := binary.BigEndian.Uint32(h.Sum(nil))
	vkey = fmt.Sprintf("%s+%08x+%s", name, kh, base64.StdEncoding.EncodeToString(pubkey))
	skey = fmt.Sprintf("PRIVATE+KEY+%s+%08x+%s", name, kh, base64.StdEncoding.EncodeToString(append([]byte{1}, seed...)))
	return
}

func NewSrcLog(origin string, size int64, seed uint64) *SrcLog {
	sk, vk := noteKeys(origin, Hash32("src log key "+origin))
	s, err := note.NewSigner(sk)
	if err != nil {
		panic(err)
	}
	g := &SrcLog{Origin: origin, Signer: s, VKey: vk, Tree: &ref.Tree{}}
	r := core.NewRand(core.Mix(seed, core.HashString(origin)))
	for i := int64(0); i < size; i++ {
		e := []byte(fmt.Sprintf("src-%s-%d-%x", origin, i, r.Uint64()))
		g.Entries = append(g.Entries, e)
		g.Tree.Append(ref.LeafHash(e))
	}
	return g
}

func (g *SrcLog) hashReader() tlog.HashReaderFunc {
	return func(indexes []int64) ([]tlog.Hash, error) {
		out := make([]tlog.Hash, len(indexes))
		for i, id := range indexes {
			level, n := tlog.SplitStoredHashIndex(id)
			h, ok := g.Tree.Node(level, n)
			if !ok {
				return nil, fmt.Errorf("no stored hash %d", id)
			}
			out[i] = tlog.Hash(h)
		}
		return out, nil
	}
}

func (g *SrcLog) Checkpoint(n int64) []byte {
	root := g.Tree.Root(n)
	text := fmt.Sprintf("%s\n%d\n%s\n", g.Origin, n, base64.StdEncoding.EncodeToString(root[:]))
	msg, err := note.Sign(&note.Note{Text: text}, g.Signer)
	if err != nil {
		panic(err)
	}
	return msg
}

type WitnessDir struct {
	Dir     string
	W       *witness.Witness
	Cfg     *witness.Config
	Lock    *MemLock
	Logs    []*SrcLog
	Pending map[string]int64
	Mirror  map[string]int64
}

const (
	WitnessName = "dirgen.example/witness"
	MirrorName  = "dirgen.example/mirror"
)

// BuildWitness runs a real witness over a LocalBackend in dir: every log is
// advanced to pendingSizes[i] with add-checkpoint, and the first log (if
// mirror) is uploaded up to mirrorSize with add-entries.
func BuildWitness(dir, tmp string, logs []*SrcLog, pendingSizes []int64, mirror bool, mirrorSizes []int64) (*WitnessDir, error) {
	ctx := context.Background()
	be, err := ctlog.NewLocalBackend(ctx, dir, Quiet)
	if err != nil {
		return nil, err
	}
	mk := func(l string) *mldsa.PrivateKey {
		k, _ := mldsa.NewPrivateKey(mldsa.MLDSA44(), Hash32(l))
		return k
	}
	wd := &WitnessDir{Dir: dir, Lock: NewMemLock(), Logs: logs, Pending: map[string]int64{}, Mirror: map[string]int64{}}
	wd.Cfg = &witness.Config{Name: WitnessName, KeyEd25519: ed25519.NewKeyFromSeed(Hash32("dirgen witness ed")), KeyMLDSA44: mk("dirgen witness mldsa"),
		Backend: be, Lock: wd.Lock, Log: Quiet}
	if mirror {
		wd.Cfg.MirrorName = MirrorName
		wd.Cfg.KeyMirror = mk("dirgen mirror mldsa")
	}
	w, err := witness.NewWitness(ctx, wd.Cfg)
	if err != nil {
		return nil, err
	}
	wd.W = w
	var plain, mirrored string
	plain, mirrored = "logs/v0\n", "logs/v0\n"
	for i, g := range logs {
		if mirror && i == 0 {
			mirrored += "vkey " + g.VKey + "\n"
		} else {
			plain += "vkey " + g.VKey + "\n"
		}
	}
	pl := filepath.Join(tmp, "loglist.txt")
	os.WriteFile(pl, []byte(plain), 0o644)
	if err := w.PullLogList(ctx, pl, false); err != nil {
		return nil, err
	}
	if mirror {
		ml := filepath.Join(tmp, "mirrorlist.txt")
		os.WriteFile(ml, []byte(mirrored), 0o644)
		if err := w.PullLogList(ctx, ml, true); err != nil {
			return nil, err
		}
	}
	h := w.Handler()
	for i, g := range logs {
		old := int64(0)
		n := pendingSizes[i]
		if n == 0 {
			continue
		}
		var b bytes.Buffer
		fmt.Fprintf(&b, "old %d\n\n", old)
		b.Write(g.Checkpoint(n))
		rec := httptest.NewRecorder()
		h.ServeHTTP(rec, httptest.NewRequest("POST", "/add-checkpoint", &b))
		if rec.Code != 200 {
			return nil, fmt.Errorf("add-checkpoint: %d %s", rec.Code, rec.Body.String())
		}
		wd.Pending[g.Origin] = n
	}
	if mirror && len(logs) > 0 && pendingSizes[0] > 0 {
		g := logs[0]
		start := int64(0)
		for _, end := range mirrorSizes {
			if end > pendingSizes[0] || end <= start {
				continue
			}
			// a mirror can only commit at a pending or ticketed size; advance the
			// pending checkpoint step by step instead: re-witness at each size.
			_ = end
		}
		end := pendingSizes[0]
		var body []byte
		body = binary.BigEndian.AppendUint16(body, uint16(len(g.Origin)))
		body = append(body, g.Origin...)
		body = binary.BigEndian.AppendUint64(body, uint64(start))
		body = binary.BigEndian.AppendUint64(body, uint64(end))
		body = binary.BigEndian.AppendUint16(body, 0)
		rs := start - start%256
		re := (end + 255) / 256 * 256
		for i := int64(0); i < (re-rs)/256; i++ {
			ts := rs + i*256
			s := max(start, ts)
			e := min(end, ts+256)
			for k := s; k < e; k++ {
				body = binary.BigEndian.AppendUint16(body, uint16(len(g.Entries[k])))
				body = append(body, g.Entries[k]...)
			}
			proof, err := torchwood.ProveSubtree(end, ts, e, g.hashReader())
			if err != nil {
				return nil, err
			}
			body = append(body, byte(len(proof)))
			for _, ph := range proof {
				body = append(body, ph[:]...)
			}
		}
		req := httptest.NewRequest("POST", "/add-entries", bytes.NewReader(body))
		req.Header.Set("Content-Type", "application/octet-stream")
		rec := httptest.NewRecorder()
		h.ServeHTTP(rec, req)
		if rec.Code != 200 {
			return nil, fmt.Errorf("add-entries: %d %s", rec.Code, rec.Body.String())
		}
		wd.Mirror[g.Origin] = end
	}
	// metadata files, in cmd/sunlight's schema
	wj, _ := json.MarshalIndent(map[string]any{"name": WitnessName, "verifier_keys": w.VerifierKeys()}, "", "  ")
	os.WriteFile(filepath.Join(dir, "witness.v0.json"), wj, 0o644)
	if mirror {
		mkey, _ := w.MirrorVerifierKey()
		mj, _ := json.MarshalIndent(map[string]any{"name": MirrorName, "verifier_keys": []string{mkey}}, "", "  ")
		os.MkdirAll(filepath.Join(dir, "mirror"), 0o755)
		os.WriteFile(filepath.Join(dir, "mirror", "mirror.v0.json"), mj, 0o644)
	}
	return wd, nil
}

var _ ecdsa.PrivateKey
