// Package simimmutable stands in for internal/immutable over simos files.
package simimmutable

import "filippo.io/sunlight/internal/verifsim/simos"

func Set(f *simos.File)   { f.SetImmutable(true) }
func Unset(f *simos.File) { f.SetImmutable(false) }
