// Package simos is an in-memory POSIX-like file system with a volatile (page
// cache) and a durable layer, exposing the subset of package os that
// internal/durable and internal/ctlog/local.go use. In the C13 build those two
// files are compiled against this package instead of "os".
//
// Persistence model: write/chmod are volatile until fsync of the file;
// directory-entry changes (create, mkdir, rename, unlink) are volatile until
// fsync of the containing directory (strict model), or until any fsync at all
// (ordered-journal model).
package simos

import (
	"errors"
	"fmt"
	"io"
	"io/fs"
	"os"
	"path/filepath"
	"sort"
	"strings"
	"sync"
	"syscall"
	"time"
)

type FileMode = fs.FileMode
type PathError = fs.PathError
type FileInfo = fs.FileInfo

const (
	O_RDONLY = os.O_RDONLY
	O_WRONLY = os.O_WRONLY
	O_RDWR   = os.O_RDWR
	O_CREATE = os.O_CREATE
	O_EXCL   = os.O_EXCL
	O_TRUNC  = os.O_TRUNC
)

func IsExist(err error) bool    { return os.IsExist(err) }
func IsNotExist(err error) bool { return os.IsNotExist(err) }

// Inode is a file or directory.
type Inode struct {
	Ino       int
	Dir       bool
	Mode      FileMode
	Immutable bool
	Data      []byte // volatile content
	DData     []byte // content as of the last successful fsync
	DSynced   bool   // DData is meaningful
	ents      map[string]*Inode
}

// Change is one directory-entry change.
type Change struct {
	Seq     int
	Dir     *Inode
	Name    string
	Child   *Inode // nil: unlink
	From    string // rename source name ("" otherwise); same directory
	Durable bool   // the directory was fsynced after this change (strict model)
	Owner   int    // FS.Owner at the time of the change (which call made it)
}

// FS is one mounted file system.
type FS struct {
	mu      sync.Mutex
	Root    *Inode
	nextIno int
	seq     int
	Log     []*Change
	// CommitSeq: every change with Seq <= CommitSeq is durable in the
	// ordered-journal model.
	CommitSeq int
	tmpN      int

	// Hook is the seam: called at the start of every call with the operation
	// kind and path; it may block (the scheduler decides when the call
	// proceeds) and returns a fault: "", "EIO", "ENOSPC", "short".
	Hook func(op, path string) string
	// Confine is the directory all content accesses must stay in.
	Confine string
	Escapes []string
	// Trace records the operation kinds in order.
	Trace []string
	Ops   int
	// NoChattr: FS_IOC_SETFLAGS fails (no CAP_LINUX_IMMUTABLE or unsupported
	// file system); internal/immutable ignores that error.
	NoChattr bool
	// Owner tags the changes made from now on (set by the scheduler to the
	// call it is about to let run).
	Owner int
}

// Current is the file system the package-level functions operate on.
var Current *FS

func New() *FS {
	f := &FS{}
	f.Root = f.newInode(true, 0o755)
	return f
}

func (f *FS) newInode(dir bool, mode FileMode) *Inode {
	f.nextIno++
	n := &Inode{Ino: f.nextIno, Dir: dir, Mode: mode}
	if dir {
		n.ents = map[string]*Inode{}
	}
	return n
}

func (f *FS) call(op, path string) string {
	f.mu.Lock()
	f.Ops++
	f.Trace = append(f.Trace, op)
	if f.Confine != "" && path != "" {
		p := filepath.Clean(path)
		in := p == f.Confine || strings.HasPrefix(p, f.Confine+"/")
		anc := strings.HasPrefix(f.Confine, strings.TrimSuffix(p, "/")+"/") || p == "/"
		if !in && !(anc && (op == "open" || op == "stat" || op == "fsync" || op == "mkdir" || op == "close")) {
			f.Escapes = append(f.Escapes, op+" "+path)
		}
	}
	h := f.Hook
	f.mu.Unlock()
	if h == nil {
		return ""
	}
	return h(op, path)
}

func faultErr(fault string) error {
	switch fault {
	case "EIO":
		return syscall.EIO
	case "ENOSPC", "short":
		return syscall.ENOSPC
	}
	return nil
}

// lookup resolves a cleaned absolute path. Caller holds mu.
func (f *FS) lookup(path string) (*Inode, error) {
	path = filepath.Clean(path)
	if !filepath.IsAbs(path) {
		return nil, syscall.ENOENT
	}
	cur := f.Root
	for _, c := range strings.Split(strings.Trim(path, "/"), "/") {
		if c == "" {
			continue
		}
		if !cur.Dir {
			return nil, syscall.ENOTDIR
		}
		n, ok := cur.ents[c]
		if !ok {
			return nil, syscall.ENOENT
		}
		cur = n
	}
	return cur, nil
}

func (f *FS) parentOf(path string) (*Inode, string, error) {
	path = filepath.Clean(path)
	dir, base := filepath.Split(path)
	d, err := f.lookup(dir)
	if err != nil {
		return nil, "", err
	}
	if !d.Dir {
		return nil, "", syscall.ENOTDIR
	}
	return d, base, nil
}

func (f *FS) record(dir *Inode, name string, child *Inode, from string) {
	f.seq++
	f.Log = append(f.Log, &Change{Seq: f.seq, Dir: dir, Name: name, Child: child, From: from, Owner: f.Owner})
}

type fileInfo struct {
	name string
	n    *Inode
}

func (i fileInfo) Name() string       { return i.name }
func (i fileInfo) Size() int64        { return int64(len(i.n.Data)) }
func (i fileInfo) Mode() fs.FileMode {
	if i.n.Dir {
		return i.n.Mode | fs.ModeDir
	}
	return i.n.Mode
}
func (i fileInfo) ModTime() time.Time { return time.Time{} }
func (i fileInfo) IsDir() bool        { return i.n.Dir }
func (i fileInfo) Sys() any           { return nil }

func Stat(name string) (FileInfo, error) {
	f := Current
	if ft := f.call("stat", name); ft != "" {
		return nil, &PathError{Op: "stat", Path: name, Err: faultErr(ft)}
	}
	f.mu.Lock()
	defer f.mu.Unlock()
	n, err := f.lookup(name)
	if err != nil {
		return nil, &PathError{Op: "stat", Path: name, Err: err}
	}
	return fileInfo{filepath.Base(name), n}, nil
}

// File is an open file or directory.
type File struct {
	fs     *FS
	n      *Inode
	name   string
	off    int
	closed bool
	write  bool
	reads  int
}

func Open(name string) (*File, error) { return OpenFile(name, O_RDONLY, 0) }

func OpenFile(name string, flag int, perm FileMode) (*File, error) {
	f := Current
	if ft := f.call("open", name); ft != "" {
		return nil, &PathError{Op: "open", Path: name, Err: faultErr(ft)}
	}
	f.mu.Lock()
	defer f.mu.Unlock()
	n, err := f.lookup(name)
	if err != nil {
		if errors.Is(err, syscall.ENOENT) && flag&O_CREATE != 0 {
			d, base, perr := f.parentOf(name)
			if perr != nil {
				return nil, &PathError{Op: "open", Path: name, Err: perr}
			}
			n = f.newInode(false, perm)
			d.ents[base] = n
			f.record(d, base, n, "")
			return &File{fs: f, n: n, name: name, write: true}, nil
		}
		return nil, &PathError{Op: "open", Path: name, Err: err}
	}
	if flag&O_EXCL != 0 && flag&O_CREATE != 0 {
		return nil, &PathError{Op: "open", Path: name, Err: syscall.EEXIST}
	}
	if flag&syscall.O_DIRECTORY != 0 && !n.Dir {
		return nil, &PathError{Op: "open", Path: name, Err: syscall.ENOTDIR}
	}
	w := flag&(O_WRONLY|O_RDWR) != 0
	if w && n.Dir {
		return nil, &PathError{Op: "open", Path: name, Err: syscall.EISDIR}
	}
	if w && n.Immutable {
		return nil, &PathError{Op: "open", Path: name, Err: syscall.EPERM}
	}
	if w && flag&O_TRUNC != 0 {
		n.Data = nil
	}
	return &File{fs: f, n: n, name: name, write: w}, nil
}

func CreateTemp(dir, pattern string) (*File, error) {
	f := Current
	if ft := f.call("createtemp", filepath.Join(dir, pattern)); ft != "" {
		return nil, &PathError{Op: "createtemp", Path: dir, Err: faultErr(ft)}
	}
	f.mu.Lock()
	defer f.mu.Unlock()
	d, err := f.lookup(dir)
	if err != nil {
		return nil, &PathError{Op: "createtemp", Path: dir, Err: err}
	}
	if !d.Dir {
		return nil, &PathError{Op: "createtemp", Path: dir, Err: syscall.ENOTDIR}
	}
	for {
		f.tmpN++
		name := fmt.Sprintf("%s%09d", pattern, f.tmpN)
		if _, ok := d.ents[name]; ok {
			continue
		}
		n := f.newInode(false, 0o600)
		d.ents[name] = n
		f.record(d, name, n, "")
		return &File{fs: f, n: n, name: filepath.Join(dir, name), write: true}, nil
	}
}

func (fl *File) Name() string { return fl.name }

// Inode exposes the inode to simimmutable.
func (fl *File) Inode() *Inode { return fl.n }

func (fl *File) Close() error {
	if fl == nil {
		return os.ErrInvalid
	}
	if fl.closed {
		return &PathError{Op: "close", Path: fl.name, Err: os.ErrClosed}
	}
	ft := fl.fs.call("close", fl.name)
	fl.closed = true
	if ft != "" {
		return &PathError{Op: "close", Path: fl.name, Err: faultErr(ft)}
	}
	return nil
}

func (fl *File) Read(b []byte) (int, error) {
	if fl.closed {
		return 0, os.ErrClosed
	}
	// only the first reads of a handle are scheduling points (large files)
	fl.reads++
	fl.fs.tick()
	if fl.reads <= 3 {
		if ft := fl.fs.call("read", fl.name); ft != "" {
			return 0, &PathError{Op: "read", Path: fl.name, Err: faultErr(ft)}
		}
	}
	fl.fs.mu.Lock()
	defer fl.fs.mu.Unlock()
	if fl.n.Dir {
		return 0, &PathError{Op: "read", Path: fl.name, Err: syscall.EISDIR}
	}
	if len(b) == 0 {
		return 0, nil
	}
	if fl.off >= len(fl.n.Data) {
		return 0, io.EOF
	}
	n := copy(b, fl.n.Data[fl.off:])
	fl.off += n
	return n, nil
}

func (fl *File) Write(b []byte) (int, error) {
	if fl.closed {
		return 0, os.ErrClosed
	}
	ft := fl.fs.call("write", fl.name)
	fl.fs.mu.Lock()
	defer fl.fs.mu.Unlock()
	if !fl.write {
		return 0, &PathError{Op: "write", Path: fl.name, Err: syscall.EBADF}
	}
	if fl.n.Immutable {
		return 0, &PathError{Op: "write", Path: fl.name, Err: syscall.EPERM}
	}
	switch ft {
	case "EIO", "ENOSPC":
		return 0, &PathError{Op: "write", Path: fl.name, Err: faultErr(ft)}
	case "short":
		k := len(b) / 2
		fl.put(b[:k])
		return k, &PathError{Op: "write", Path: fl.name, Err: syscall.ENOSPC}
	}
	fl.put(b)
	return len(b), nil
}

func (fl *File) put(b []byte) {
	d := fl.n.Data
	if fl.off > len(d) {
		d = append(d, make([]byte, fl.off-len(d))...)
	}
	d = append(d[:fl.off:fl.off], b...)
	if rest := fl.off + len(b); rest < len(fl.n.Data) {
		d = append(d, fl.n.Data[rest:]...)
	}
	fl.n.Data = d
	fl.off += len(b)
}

func (fl *File) Chmod(m FileMode) error {
	if ft := fl.fs.call("chmod", fl.name); ft != "" {
		return &PathError{Op: "chmod", Path: fl.name, Err: faultErr(ft)}
	}
	fl.fs.mu.Lock()
	defer fl.fs.mu.Unlock()
	if fl.n.Immutable {
		return &PathError{Op: "chmod", Path: fl.name, Err: syscall.EPERM}
	}
	fl.n.Mode = m
	return nil
}

func (fl *File) Sync() error {
	if fl.closed {
		return os.ErrClosed
	}
	if ft := fl.fs.call("fsync", fl.name); ft != "" {
		return &PathError{Op: "fsync", Path: fl.name, Err: faultErr(ft)}
	}
	f := fl.fs
	f.mu.Lock()
	defer f.mu.Unlock()
	if fl.n.Dir {
		for _, c := range f.Log {
			if c.Dir == fl.n {
				c.Durable = true
			}
		}
	} else {
		fl.n.DData = append([]byte(nil), fl.n.Data...)
		fl.n.DSynced = true
	}
	f.CommitSeq = f.seq
	return nil
}

func ReadFile(name string) ([]byte, error) {
	fl, err := Open(name)
	if err != nil {
		return nil, err
	}
	defer fl.Close()
	fl.fs.mu.Lock()
	isDir := fl.n.Dir
	size := len(fl.n.Data)
	fl.fs.mu.Unlock()
	if isDir {
		return nil, &PathError{Op: "read", Path: name, Err: syscall.EISDIR}
	}
	var out []byte
	chunk := size/3 + 512
	buf := make([]byte, chunk)
	for {
		n, err := fl.Read(buf)
		out = append(out, buf[:n]...)
		if err == io.EOF {
			return out, nil
		}
		if err != nil {
			return nil, err
		}
	}
}

func Remove(name string) error {
	f := Current
	if ft := f.call("unlink", name); ft != "" {
		return &PathError{Op: "remove", Path: name, Err: faultErr(ft)}
	}
	f.mu.Lock()
	defer f.mu.Unlock()
	d, base, err := f.parentOf(name)
	if err != nil {
		return &PathError{Op: "remove", Path: name, Err: err}
	}
	n, ok := d.ents[base]
	if !ok {
		return &PathError{Op: "remove", Path: name, Err: syscall.ENOENT}
	}
	if n.Immutable {
		return &PathError{Op: "remove", Path: name, Err: syscall.EPERM}
	}
	if n.Dir && len(n.ents) > 0 {
		return &PathError{Op: "remove", Path: name, Err: syscall.ENOTEMPTY}
	}
	delete(d.ents, base)
	f.record(d, base, nil, "")
	return nil
}

func Rename(oldpath, newpath string) error {
	f := Current
	// os.Rename lstats the destination first (to refuse renaming onto a
	// directory) and ignores a failure of that lstat
	f.call("stat", newpath)
	if ft := f.call("rename", newpath); ft != "" {
		return &os.LinkError{Op: "rename", Old: oldpath, New: newpath, Err: faultErr(ft)}
	}
	f.mu.Lock()
	defer f.mu.Unlock()
	od, ob, err := f.parentOf(oldpath)
	if err != nil {
		return &os.LinkError{Op: "rename", Old: oldpath, New: newpath, Err: err}
	}
	nd, nb, err := f.parentOf(newpath)
	if err != nil {
		return &os.LinkError{Op: "rename", Old: oldpath, New: newpath, Err: err}
	}
	n, ok := od.ents[ob]
	if !ok {
		return &os.LinkError{Op: "rename", Old: oldpath, New: newpath, Err: syscall.ENOENT}
	}
	if t, ok := nd.ents[nb]; ok && t.Immutable {
		return &os.LinkError{Op: "rename", Old: oldpath, New: newpath, Err: syscall.EPERM}
	}
	if n.Immutable {
		return &os.LinkError{Op: "rename", Old: oldpath, New: newpath, Err: syscall.EPERM}
	}
	delete(od.ents, ob)
	nd.ents[nb] = n
	if od == nd {
		f.record(nd, nb, n, ob)
	} else {
		f.record(od, ob, nil, "")
		f.record(nd, nb, n, "")
	}
	return nil
}

func Mkdir(name string, perm FileMode) error {
	f := Current
	if ft := f.call("mkdir", name); ft != "" {
		return &PathError{Op: "mkdir", Path: name, Err: faultErr(ft)}
	}
	f.mu.Lock()
	defer f.mu.Unlock()
	d, base, err := f.parentOf(name)
	if err != nil {
		return &PathError{Op: "mkdir", Path: name, Err: err}
	}
	if _, ok := d.ents[base]; ok {
		return &PathError{Op: "mkdir", Path: name, Err: syscall.EEXIST}
	}
	n := f.newInode(true, perm)
	d.ents[base] = n
	f.record(d, base, n, "")
	return nil
}

// ---------------------------------------------------------------------------
// crash images

// Image is a file system as found after power loss.
type Image struct {
	Files map[string][]byte // path -> content
	Dirs  map[string]bool
}

// CrashImage builds the state after power loss. include decides, for each
// not-yet-durable directory change (in sequence order), whether it reached the
// disk; data decides the content of a file whose volatile data was not fsynced:
// it gets (durable content or nil, volatile content) and returns what is found.
// ordered=true uses the ordered-journal model: include is then called once with
// nil and must return through cut the last sequence number that survived.
func (f *FS) CrashImage(ordered bool, include func(c *Change) bool, cut func(lo, hi int) int, data func(n *Inode) []byte) *Image {
	f.mu.Lock()
	defer f.mu.Unlock()
	ents := map[*Inode]map[string]*Inode{}
	get := func(d *Inode) map[string]*Inode {
		m := ents[d]
		if m == nil {
			m = map[string]*Inode{}
			ents[d] = m
		}
		return m
	}
	c0 := 0
	if ordered {
		c0 = cut(f.CommitSeq, f.seq)
	}
	for _, c := range f.Log {
		var take bool
		if ordered {
			take = c.Seq <= c0
		} else {
			take = c.Durable || include(c)
		}
		if !take {
			continue
		}
		m := get(c.Dir)
		if c.From != "" {
			delete(m, c.From)
		}
		if c.Child == nil {
			delete(m, c.Name)
		} else {
			m[c.Name] = c.Child
		}
	}
	img := &Image{Files: map[string][]byte{}, Dirs: map[string]bool{"/": true}}
	var walk func(d *Inode, path string)
	walk = func(d *Inode, path string) {
		names := make([]string, 0, len(ents[d]))
		for n := range ents[d] {
			names = append(names, n)
		}
		sort.Strings(names)
		for _, name := range names {
			n := ents[d][name]
			p := filepath.Join(path, name)
			if n.Dir {
				img.Dirs[p] = true
				walk(n, p)
			} else {
				img.Files[p] = data(n)
			}
		}
	}
	walk(f.Root, "/")
	return img
}

// Unsynced reports whether the inode's volatile content differs from its
// durable content.
func (n *Inode) Unsynced() bool {
	if !n.DSynced {
		return true
	}
	return string(n.Data) != string(n.DData)
}

// Mount builds a fresh, fully durable file system from an image.
func Mount(img *Image) *FS {
	f := New()
	dirs := make([]string, 0, len(img.Dirs))
	for d := range img.Dirs {
		dirs = append(dirs, d)
	}
	sort.Strings(dirs)
	mk := func(p string) *Inode {
		cur := f.Root
		for _, c := range strings.Split(strings.Trim(p, "/"), "/") {
			if c == "" {
				continue
			}
			n, ok := cur.ents[c]
			if !ok {
				n = f.newInode(true, 0o755)
				cur.ents[c] = n
				f.record(cur, c, n, "")
			}
			cur = n
		}
		return cur
	}
	for _, d := range dirs {
		mk(d)
	}
	files := make([]string, 0, len(img.Files))
	for p := range img.Files {
		files = append(files, p)
	}
	sort.Strings(files)
	for _, p := range files {
		d := mk(filepath.Dir(p))
		n := f.newInode(false, 0o644)
		n.Data = append([]byte(nil), img.Files[p]...)
		n.DData = n.Data
		n.DSynced = true
		d.ents[filepath.Base(p)] = n
		f.record(d, filepath.Base(p), n, "")
	}
	for _, c := range f.Log {
		c.Durable = true
	}
	f.CommitSeq = f.seq
	return f
}

// Pending returns the directory changes that are not durable (strict model).
func (f *FS) Pending() []*Change {
	f.mu.Lock()
	defer f.mu.Unlock()
	var out []*Change
	for _, c := range f.Log {
		if !c.Durable {
			out = append(out, c)
		}
	}
	return out
}

// Snapshot returns the live (volatile) view: path -> content.
func (f *FS) Snapshot() map[string][]byte {
	f.mu.Lock()
	defer f.mu.Unlock()
	out := map[string][]byte{}
	var walk func(d *Inode, path string)
	walk = func(d *Inode, path string) {
		for name, n := range d.ents {
			p := filepath.Join(path, name)
			if n.Dir {
				walk(n, p)
			} else {
				out[p] = n.Data
			}
		}
	}
	walk(f.Root, "/")
	return out
}

// SetImmutable sets or clears the immutable inode flag (FS_IOC_SETFLAGS).
func (fl *File) SetImmutable(v bool) {
	f := fl.fs
	f.call("ioctl", fl.name)
	f.mu.Lock()
	if !f.NoChattr {
		fl.n.Immutable = v
	}
	f.mu.Unlock()
}

// ErrBudget is the panic value raised when a call exceeds the operation budget.
var ErrBudget = errors.New("simos: operation budget exceeded")

// Budget bounds the number of operations (0 = unlimited); exceeding it panics
// with ErrBudget in the calling goroutine, which turns an endless loop that
// never blocks into a deterministic failure.
var Budget int

func (f *FS) tick() {
	f.mu.Lock()
	f.Ops++
	over := Budget > 0 && f.Ops > Budget
	f.mu.Unlock()
	if over {
		panic(ErrBudget)
	}
}

// Lookup resolves a path in the live (volatile) view; nil if absent.
func (f *FS) Lookup(path string) *Inode {
	f.mu.Lock()
	defer f.mu.Unlock()
	n, err := f.lookup(path)
	if err != nil {
		return nil
	}
	return n
}

// ---------------------------------------------------------------------------
// The rest of the os surface a change to local.go / durable might reach for,
// built from the primitives above (each primitive is a scheduling and fault
// point of its own, as the real functions are sequences of system calls).

const (
	O_APPEND = os.O_APPEND
	O_SYNC   = os.O_SYNC

	ModePerm = fs.ModePerm
	ModeDir  = fs.ModeDir
)

var (
	ErrNotExist = fs.ErrNotExist
	ErrExist    = fs.ErrExist
	ErrInvalid  = fs.ErrInvalid
	ErrClosed   = fs.ErrClosed
)

type DirEntry = fs.DirEntry

func Lstat(name string) (FileInfo, error) { return Stat(name) } // no symbolic links in this file system

func Create(name string) (*File, error) { return OpenFile(name, O_RDWR|O_CREATE|O_TRUNC, 0o666) }

// MkdirAll is os.MkdirAll: one mkdir per missing level, nothing synced.
func MkdirAll(path string, perm FileMode) error {
	path = filepath.Clean(path)
	if fi, err := Stat(path); err == nil {
		if fi.IsDir() {
			return nil
		}
		return &PathError{Op: "mkdir", Path: path, Err: syscall.ENOTDIR}
	}
	if parent := filepath.Dir(path); parent != path {
		if err := MkdirAll(parent, perm); err != nil {
			return err
		}
	}
	err := Mkdir(path, perm)
	if err != nil && IsExist(err) {
		if fi, serr := Stat(path); serr == nil && fi.IsDir() {
			return nil
		}
	}
	return err
}

// WriteFile is os.WriteFile: open with O_CREATE|O_TRUNC, write, close; no sync.
func WriteFile(name string, data []byte, perm FileMode) error {
	f, err := OpenFile(name, O_WRONLY|O_CREATE|O_TRUNC, perm)
	if err != nil {
		return err
	}
	_, err = f.Write(data)
	if cerr := f.Close(); cerr != nil && err == nil {
		err = cerr
	}
	return err
}

func RemoveAll(path string) error {
	fi, err := Stat(path)
	if err != nil {
		if IsNotExist(err) {
			return nil
		}
		return err
	}
	if fi.IsDir() {
		ents, err := ReadDir(path)
		if err != nil {
			return err
		}
		for _, e := range ents {
			if err := RemoveAll(filepath.Join(path, e.Name())); err != nil {
				return err
			}
		}
	}
	return Remove(path)
}

type dirEntry struct{ fileInfo }

func (d dirEntry) Type() fs.FileMode          { return d.Mode().Type() }
func (d dirEntry) Info() (fs.FileInfo, error) { return d.fileInfo, nil }

func ReadDir(name string) ([]DirEntry, error) {
	f := Current
	if ft := f.call("readdir", name); ft != "" {
		return nil, &PathError{Op: "readdir", Path: name, Err: faultErr(ft)}
	}
	f.mu.Lock()
	defer f.mu.Unlock()
	n, err := f.lookup(name)
	if err != nil {
		return nil, &PathError{Op: "readdir", Path: name, Err: err}
	}
	if !n.Dir {
		return nil, &PathError{Op: "readdir", Path: name, Err: syscall.ENOTDIR}
	}
	var names []string
	for k := range n.ents {
		names = append(names, k)
	}
	sort.Strings(names)
	var out []DirEntry
	for _, k := range names {
		out = append(out, dirEntry{fileInfo{k, n.ents[k]}})
	}
	return out, nil
}

// Chmod by path: volatile until the file is synced, like File.Chmod.
func Chmod(name string, mode FileMode) error {
	fl, err := Open(name)
	if err != nil {
		return err
	}
	defer fl.Close()
	return fl.Chmod(mode)
}

func (fl *File) Stat() (FileInfo, error) {
	fl.fs.mu.Lock()
	defer fl.fs.mu.Unlock()
	if fl.closed {
		return nil, &PathError{Op: "stat", Path: fl.name, Err: fs.ErrClosed}
	}
	return fileInfo{filepath.Base(fl.name), fl.n}, nil
}

func (fl *File) WriteString(s string) (int, error) { return fl.Write([]byte(s)) }

// ReadFrom makes io.Copy(file, src) go through Write.
func (fl *File) ReadFrom(r io.Reader) (int64, error) {
	buf := make([]byte, 32*1024)
	var total int64
	for {
		n, err := r.Read(buf)
		if n > 0 {
			m, werr := fl.Write(buf[:n])
			total += int64(m)
			if werr != nil {
				return total, werr
			}
		}
		if err == io.EOF {
			return total, nil
		}
		if err != nil {
			return total, err
		}
	}
}

func (fl *File) Readdirnames(n int) ([]string, error) {
	ents, err := ReadDir(fl.name)
	if err != nil {
		return nil, err
	}
	var out []string
	for _, e := range ents {
		out = append(out, e.Name())
	}
	return out, nil
}
