// Package simnet is an in-memory network for use inside a synctest bubble:
// a net.Listener whose connections are net.Pipe ends, and dialers that tag
// each connection with the index of the client that opened it.
package simnet

import (
	"context"
	"net"
	"net/http"
	"sync"
)

type TaggedConn struct {
	net.Conn
	Client int
}

type Net struct {
	conns  chan net.Conn
	closed chan struct{}
	once   sync.Once
}

func New() *Net { return &Net{conns: make(chan net.Conn), closed: make(chan struct{})} }

func (p *Net) Accept() (net.Conn, error) {
	select {
	case c := <-p.conns:
		return c, nil
	case <-p.closed:
		return nil, net.ErrClosed
	}
}
func (p *Net) Close() error   { p.once.Do(func() { close(p.closed) }); return nil }
func (p *Net) Addr() net.Addr { return addr{} }

type addr struct{}

func (addr) Network() string { return "pipe" }
func (addr) String() string  { return "pipe" }

// Dialer returns a DialContext function for the given client index.
func (p *Net) Dialer(client int) func(ctx context.Context, network, addr string) (net.Conn, error) {
	return func(ctx context.Context, network, addr string) (net.Conn, error) {
		c1, c2 := net.Pipe()
		select {
		case p.conns <- &TaggedConn{Conn: c2, Client: client}:
			return c1, nil
		case <-p.closed:
			return nil, net.ErrClosed
		case <-ctx.Done():
			return nil, ctx.Err()
		}
	}
}

type connKey struct{}

// ClientOf returns the client index of the connection a request arrived on.
func ClientOf(r *http.Request) int {
	if c, ok := r.Context().Value(connKey{}).(*TaggedConn); ok {
		return c.Client
	}
	return -1
}

// Serve starts an HTTP server on the in-memory network.
func Serve(p *Net, h http.Handler) *http.Server {
	srv := &http.Server{Handler: h, ConnContext: func(ctx context.Context, c net.Conn) context.Context {
		return context.WithValue(ctx, connKey{}, c)
	}}
	go srv.Serve(p)
	return srv
}

// Cut drops the connection of a request without a response.
func Cut(w http.ResponseWriter) {
	if hj, ok := w.(http.Hijacker); ok {
		if c, _, err := hj.Hijack(); err == nil {
			c.Close()
			return
		}
	}
	panic(http.ErrAbortHandler)
}
