// Package lock (locksim) checks C05: the three real lock backends, driven by
// concurrent scripted clients under the seeded scheduler. DynamoDB and S3 are
// protocol-level in-process fakes written from the service documentation,
// reached by the real AWS SDK over net.Pipe connections.
package lock

import (
	"bufio"
	"bytes"
	"context"
	"crypto/md5"
	"encoding/base64"
	"encoding/hex"
	"encoding/json"
	"fmt"
	"io"
	"net"
	"net/http"
	"strconv"
	"strings"
	"sync"
)

// ---------------------------------------------------------------------------
// in-memory network

type taggedConn struct {
	net.Conn
	client int
}

type pipeNet struct {
	conns  chan net.Conn
	closed chan struct{}
	once   sync.Once
}

func newPipeNet() *pipeNet {
	return &pipeNet{conns: make(chan net.Conn), closed: make(chan struct{})}
}

func (p *pipeNet) Accept() (net.Conn, error) {
	select {
	case c := <-p.conns:
		return c, nil
	case <-p.closed:
		return nil, net.ErrClosed
	}
}
func (p *pipeNet) Close() error   { p.once.Do(func() { close(p.closed) }); return nil }
func (p *pipeNet) Addr() net.Addr { return pipeAddr{} }

type pipeAddr struct{}

func (pipeAddr) Network() string { return "pipe" }
func (pipeAddr) String() string  { return "pipe" }

// dialer returns a DialContext that tags connections with the client index.
func (p *pipeNet) dialer(client int) func(ctx context.Context, network, addr string) (net.Conn, error) {
	return func(ctx context.Context, network, addr string) (net.Conn, error) {
		c1, c2 := net.Pipe()
		select {
		case p.conns <- &taggedConn{Conn: c2, client: client}:
			return c1, nil
		case <-p.closed:
			return nil, net.ErrClosed
		case <-ctx.Done():
			return nil, ctx.Err()
		}
	}
}

type connKey struct{}

func clientOf(r *http.Request) int {
	if c, ok := r.Context().Value(connKey{}).(*taggedConn); ok {
		return c.client
	}
	return -1
}

func serve(p *pipeNet, h http.Handler) *http.Server {
	srv := &http.Server{Handler: h, ConnContext: func(ctx context.Context, c net.Conn) context.Context {
		return context.WithValue(ctx, connKey{}, c)
	}}
	go srv.Serve(p)
	return srv
}

// A verdict is what the scheduler decided for one request.
type verdict string

const (
	vOK        verdict = "ok"
	v500       verdict = "500"
	v503       verdict = "503"
	vCutBefore verdict = "cut-before" // connection dropped, no effect
	vCutAfter  verdict = "cut-after"  // effect applied, connection dropped before the response
	vStale     verdict = "stale"      // eventually consistent read returns an older value
)

// gate is called by the fakes for every request; it blocks until the
// scheduler has decided.
type gate func(client int, kind, key string, mut bool) verdict

func cut(w http.ResponseWriter) {
	if hj, ok := w.(http.Hijacker); ok {
		if c, _, err := hj.Hijack(); err == nil {
			c.Close()
			return
		}
	}
	panic(http.ErrAbortHandler)
}

// ---------------------------------------------------------------------------
// DynamoDB (JSON 1.0 protocol): GetItem, PutItem with ConditionExpression

type ddbAttr struct {
	B    *string `json:"B,omitempty"`
	S    *string `json:"S,omitempty"`
	NULL *bool   `json:"NULL,omitempty"`
}

type ddbItem map[string]map[string]json.RawMessage

type fakeDDB struct {
	mu    sync.Mutex
	gate  gate
	table string
	items map[string]ddbItem // key = base64 of logID
	prev  map[string]ddbItem // previous version, served to stale reads
	reqs  int
}

func newFakeDDB(table string, g gate) *fakeDDB {
	return &fakeDDB{table: table, gate: g, items: map[string]ddbItem{}, prev: map[string]ddbItem{}}
}

func ddbError(w http.ResponseWriter, code int, typ, msg string) {
	w.Header().Set("Content-Type", "application/x-amz-json-1.0")
	w.WriteHeader(code)
	fmt.Fprintf(w, `{"__type":"com.amazonaws.dynamodb.v20120810#%s","message":%q}`, typ, msg)
}

// validateAttr refuses what DynamoDB refuses: exactly one type key, and a
// binary value must be a base64 string (null is a ValidationException).
func validateAttr(name string, a map[string]json.RawMessage) error {
	if len(a) != 1 {
		return fmt.Errorf("attribute %s: exactly one data type expected", name)
	}
	for t, v := range a {
		switch t {
		case "B":
			var s *string
			if err := json.Unmarshal(v, &s); err != nil || s == nil {
				return fmt.Errorf("attribute %s: binary value must be a base64 string", name)
			}
			if _, err := base64.StdEncoding.DecodeString(*s); err != nil {
				return fmt.Errorf("attribute %s: invalid base64", name)
			}
		case "S", "N":
			var s *string
			if err := json.Unmarshal(v, &s); err != nil || s == nil {
				return fmt.Errorf("attribute %s: string expected", name)
			}
		default:
			return fmt.Errorf("attribute %s: unsupported type %s", name, t)
		}
	}
	return nil
}

func attrEqual(a, b map[string]json.RawMessage) bool {
	if len(a) != len(b) {
		return false
	}
	for k, v := range a {
		var x, y any
		if json.Unmarshal(v, &x) != nil || json.Unmarshal(b[k], &y) != nil {
			return false
		}
		if fmt.Sprint(x) != fmt.Sprint(y) || b[k] == nil {
			return false
		}
	}
	return true
}

func (d *fakeDDB) ServeHTTP(w http.ResponseWriter, r *http.Request) {
	body, _ := io.ReadAll(r.Body)
	target := r.Header.Get("X-Amz-Target")
	op := strings.TrimPrefix(target, "DynamoDB_20120810.")
	var req struct {
		TableName                 string
		Key                       ddbItem
		Item                      ddbItem
		ConsistentRead            bool
		ConditionExpression       *string
		ExpressionAttributeValues ddbItem
		ExpressionAttributeNames  map[string]string
	}
	if err := json.Unmarshal(body, &req); err != nil {
		ddbError(w, 400, "SerializationException", err.Error())
		return
	}
	keyOf := func(it ddbItem) (string, error) {
		a, ok := it["logID"]
		if !ok || len(it) == 0 {
			return "", fmt.Errorf("missing key attribute logID")
		}
		if err := validateAttr("logID", a); err != nil {
			return "", err
		}
		var s string
		json.Unmarshal(a["B"], &s)
		return s, nil
	}
	switch op {
	case "GetItem":
		if req.TableName != d.table {
			ddbError(w, 400, "ResourceNotFoundException", "table not found")
			return
		}
		if len(req.Key) != 1 {
			ddbError(w, 400, "ValidationException", "The provided key element does not match the schema")
			return
		}
		k, err := keyOf(req.Key)
		if err != nil {
			ddbError(w, 400, "ValidationException", err.Error())
			return
		}
		v := d.gate(clientOf(r), "ddb.GetItem", k, false)
		switch v {
		case v500:
			ddbError(w, 500, "InternalServerError", "injected")
			return
		case v503:
			ddbError(w, 503, "ServiceUnavailable", "injected")
			return
		case vCutBefore, vCutAfter:
			cut(w)
			return
		}
		d.mu.Lock()
		it, ok := d.items[k]
		if !req.ConsistentRead && v == vStale {
			it, ok = d.prev[k]
		}
		d.mu.Unlock()
		w.Header().Set("Content-Type", "application/x-amz-json-1.0")
		if !ok {
			w.Write([]byte(`{}`))
			return
		}
		out, _ := json.Marshal(map[string]any{"Item": it})
		w.Write(out)
	case "PutItem":
		if req.TableName != d.table {
			ddbError(w, 400, "ResourceNotFoundException", "table not found")
			return
		}
		k, err := keyOf(req.Item)
		if err != nil {
			ddbError(w, 400, "ValidationException", err.Error())
			return
		}
		for name, a := range req.Item {
			if err := validateAttr(name, a); err != nil {
				ddbError(w, 400, "ValidationException", err.Error())
				return
			}
		}
		for name, a := range req.ExpressionAttributeValues {
			if err := validateAttr(name, a); err != nil {
				ddbError(w, 400, "ValidationException", err.Error())
				return
			}
		}
		v := d.gate(clientOf(r), "ddb.PutItem", k, true)
		switch v {
		case v500:
			ddbError(w, 500, "InternalServerError", "injected")
			return
		case v503:
			ddbError(w, 503, "ServiceUnavailable", "injected")
			return
		case vCutBefore:
			cut(w)
			return
		}
		d.mu.Lock()
		cur, exists := d.items[k]
		okCond, cerr := evalCondition(req.ConditionExpression, req.ExpressionAttributeValues, cur, exists)
		if cerr == nil && okCond {
			if exists {
				d.prev[k] = cur
			}
			d.items[k] = req.Item
		}
		d.mu.Unlock()
		if v == vCutAfter {
			cut(w)
			return
		}
		if cerr != nil {
			ddbError(w, 400, "ValidationException", cerr.Error())
			return
		}
		if !okCond {
			ddbError(w, 400, "ConditionalCheckFailedException", "The conditional request failed")
			return
		}
		w.Header().Set("Content-Type", "application/x-amz-json-1.0")
		w.Write([]byte(`{}`))
	default:
		ddbError(w, 400, "UnknownOperationException", "unsupported operation "+op)
	}
}

// evalCondition supports the two forms of condition a CAS needs, generically
// in the attribute names: "attr = :v" and "attribute_not_exists(attr)". No
// condition = unconditional put.
func evalCondition(expr *string, vals ddbItem, cur ddbItem, exists bool) (bool, error) {
	if expr == nil {
		return true, nil
	}
	e := strings.TrimSpace(*expr)
	if rest, ok := strings.CutPrefix(e, "attribute_not_exists("); ok && strings.HasSuffix(rest, ")") {
		name := strings.TrimSpace(strings.TrimSuffix(rest, ")"))
		if !exists {
			return true, nil
		}
		_, has := cur[name]
		return !has, nil
	}
	if rest, ok := strings.CutPrefix(e, "attribute_exists("); ok && strings.HasSuffix(rest, ")") {
		name := strings.TrimSpace(strings.TrimSuffix(rest, ")"))
		if !exists {
			return false, nil
		}
		_, has := cur[name]
		return has, nil
	}
	parts := strings.Split(e, "=")
	if len(parts) == 2 {
		name := strings.TrimSpace(parts[0])
		ref := strings.TrimSpace(parts[1])
		v, ok := vals[ref]
		if !ok {
			return false, fmt.Errorf("an expression attribute value used in expression is not defined: %s", ref)
		}
		if !exists {
			return false, nil
		}
		a, has := cur[name]
		if !has {
			return false, nil
		}
		return attrEqual(a, v), nil
	}
	return false, fmt.Errorf("unsupported ConditionExpression %q", e)
}

// ---------------------------------------------------------------------------
// S3 with conditional writes (If-Match on ETag; Tigris' If-Match: "" create)

type s3Obj struct {
	data []byte
	etag string
}

type fakeS3 struct {
	// chunked: GET responses are streamed with chunked transfer encoding and
	// carry no Content-Length (a proxy in front of the bucket does this)
	chunked bool
	mu     sync.Mutex
	gate   gate
	bucket string
	objs   map[string]*s3Obj
}

func newFakeS3(bucket string, g gate) *fakeS3 {
	return &fakeS3{bucket: bucket, gate: g, objs: map[string]*s3Obj{}}
}

func s3Error(w http.ResponseWriter, code int, c, msg string) {
	w.Header().Set("Content-Type", "application/xml")
	w.WriteHeader(code)
	fmt.Fprintf(w, `<?xml version="1.0" encoding="UTF-8"?><Error><Code>%s</Code><Message>%s</Message><RequestId>sim</RequestId></Error>`, c, msg)
}

func etagOf(b []byte) string {
	s := md5.Sum(b)
	return `"` + hex.EncodeToString(s[:]) + `"`
}

// decodeAWSChunked decodes an aws-chunked body with optional trailers.
func decodeAWSChunked(b []byte) ([]byte, error) {
	r := bufio.NewReader(bytes.NewReader(b))
	var out []byte
	for {
		line, err := r.ReadString('\n')
		if err != nil {
			return nil, fmt.Errorf("aws-chunked: %v", err)
		}
		line = strings.TrimRight(line, "\r\n")
		if i := strings.IndexByte(line, ';'); i >= 0 {
			line = line[:i]
		}
		n, err := strconv.ParseInt(line, 16, 64)
		if err != nil {
			return nil, fmt.Errorf("aws-chunked size: %v", err)
		}
		if n == 0 {
			return out, nil
		}
		chunk := make([]byte, n)
		if _, err := io.ReadFull(r, chunk); err != nil {
			return nil, err
		}
		out = append(out, chunk...)
		r.ReadString('\n')
	}
}

func (s *fakeS3) ServeHTTP(w http.ResponseWriter, r *http.Request) {
	// virtual-hosted style: Host = <bucket>.<endpoint>; path style: /<bucket>/<key>
	key := strings.TrimPrefix(r.URL.Path, "/")
	host := r.Host
	if !strings.HasPrefix(host, s.bucket+".") {
		if rest, ok := strings.CutPrefix(key, s.bucket+"/"); ok {
			key = rest
		} else {
			s3Error(w, 404, "NoSuchBucket", "no such bucket")
			return
		}
	}
	body, _ := io.ReadAll(r.Body)
	if strings.Contains(r.Header.Get("Content-Encoding"), "aws-chunked") || strings.HasPrefix(r.Header.Get("X-Amz-Content-Sha256"), "STREAMING-") {
		dec, err := decodeAWSChunked(body)
		if err != nil {
			s3Error(w, 400, "IncompleteBody", err.Error())
			return
		}
		body = dec
	}
	switch r.Method {
	case "GET":
		v := s.gate(clientOf(r), "s3.GET", key, false)
		switch v {
		case v500:
			s3Error(w, 500, "InternalError", "injected")
			return
		case v503:
			s3Error(w, 503, "SlowDown", "injected")
			return
		case vCutBefore, vCutAfter:
			cut(w)
			return
		}
		s.mu.Lock()
		o, ok := s.objs[key]
		s.mu.Unlock()
		if !ok {
			s3Error(w, 404, "NoSuchKey", "The specified key does not exist.")
			return
		}
		w.Header().Set("ETag", o.etag)
		w.Header().Set("Content-Type", "text/plain; charset=utf-8")
		if s.chunked {
			half := len(o.data) / 2
			w.Write(o.data[:half])
			if f, ok := w.(http.Flusher); ok {
				f.Flush()
			}
			w.Write(o.data[half:])
			return
		}
		w.Header().Set("Content-Length", strconv.Itoa(len(o.data)))
		w.Write(o.data)
	case "PUT":
		v := s.gate(clientOf(r), "s3.PUT", key, true)
		switch v {
		case v500:
			s3Error(w, 500, "InternalError", "injected")
			return
		case v503:
			s3Error(w, 503, "SlowDown", "injected")
			return
		case vCutBefore:
			cut(w)
			return
		}
		im, hasIM := r.Header["If-Match"]
		inm := r.Header.Get("If-None-Match")
		s.mu.Lock()
		o, exists := s.objs[key]
		status, code := 200, ""
		switch {
		case hasIM && len(im) > 0 && im[0] == "":
			// Tigris: If-Match with an empty value = create only if absent
			if exists {
				status, code = 412, "PreconditionFailed"
			}
		case hasIM:
			if !exists {
				status, code = 404, "NoSuchKey"
			} else if im[0] != o.etag && im[0] != "*" {
				status, code = 412, "PreconditionFailed"
			}
		case inm == "*":
			if exists {
				status, code = 412, "PreconditionFailed"
			}
		}
		var et string
		if status == 200 {
			et = etagOf(body)
			s.objs[key] = &s3Obj{data: bytes.Clone(body), etag: et}
		}
		s.mu.Unlock()
		if v == vCutAfter {
			cut(w)
			return
		}
		if status != 200 {
			s3Error(w, status, code, "At least one of the pre-conditions you specified did not hold")
			return
		}
		w.Header().Set("ETag", et)
		w.WriteHeader(200)
	default:
		s3Error(w, 405, "MethodNotAllowed", "unsupported")
	}
}
