package lock

import (
	"bufio"
	"context"
	"encoding/base64"
	"encoding/hex"
	"encoding/json"
	"errors"
	"fmt"
	"io"
	"os"
	"os/exec"

	"filippo.io/sunlight/internal/ctlog"
)

// Separate OS processes on one SQLite database, driven in lock-step over
// pipes: every client is a child process of this test binary holding its own
// SQLiteBackend; the scheduler sends it one operation at a time.

type procReq struct {
	Op  string `json:"op"`
	ID  string `json:"id,omitempty"`
	Val *string `json:"val,omitempty"` // base64; nil = nil slice
	H   int    `json:"h,omitempty"`   // handle of the LockedCheckpoint to replace
}

type procResp struct {
	Err      string `json:"err,omitempty"`
	NotFound bool   `json:"notfound,omitempty"`
	Val      string `json:"val,omitempty"`
	H        int    `json:"h,omitempty"`
}

// RunChild is the child side (entered from TestLockChild).
func RunChild(dbPath string, in io.Reader, out io.Writer) error {
	ctx := context.Background()
	b, err := ctlog.NewSQLiteBackend(ctx, dbPath, discard)
	if err != nil {
		return err
	}
	handles := map[int]ctlog.LockedCheckpoint{}
	next := 0
	sc := bufio.NewScanner(in)
	sc.Buffer(make([]byte, 1<<20), 1<<20)
	enc := json.NewEncoder(out)
	for sc.Scan() {
		var rq procReq
		if err := json.Unmarshal(sc.Bytes(), &rq); err != nil {
			return err
		}
		var id [32]byte
		if raw, err := hex.DecodeString(rq.ID); err == nil {
			copy(id[:], raw)
		}
		var val []byte
		if rq.Val != nil {
			val, _ = base64.StdEncoding.DecodeString(*rq.Val)
			if val == nil {
				val = []byte{}
			}
		}
		var rs procResp
		switch rq.Op {
		case "fetch":
			lc, err := b.Fetch(ctx, id)
			if err != nil {
				rs.Err = err.Error()
				rs.NotFound = errors.Is(err, ctlog.ErrLogNotFound)
			} else {
				next++
				handles[next] = lc
				rs.H = next
				rs.Val = base64.StdEncoding.EncodeToString(lc.Bytes())
			}
		case "create":
			if err := b.Create(ctx, id, val); err != nil {
				rs.Err = err.Error()
			}
		case "replace":
			lc, err := b.Replace(ctx, handles[rq.H], val)
			if err != nil {
				rs.Err = err.Error()
			} else {
				next++
				handles[next] = lc
				rs.H = next
				rs.Val = base64.StdEncoding.EncodeToString(lc.Bytes())
			}
		case "quit":
			b.VerifClose()
			return nil
		}
		if err := enc.Encode(rs); err != nil {
			return err
		}
	}
	return sc.Err()
}

type procBackend struct {
	cmd *exec.Cmd
	in  io.WriteCloser
	out *bufio.Scanner
}

type procCkpt struct {
	h int
	b []byte
}

func (c *procCkpt) Bytes() []byte { return c.b }

func startChild(dbPath string) (*procBackend, error) {
	exe, err := os.Executable()
	if err != nil {
		return nil, err
	}
	cmd := exec.Command(exe, "-test.run", "^TestLockChild$", "-test.timeout", "0")
	cmd.Env = append(os.Environ(), "VERIF_LOCK_CHILD="+dbPath)
	in, err := cmd.StdinPipe()
	if err != nil {
		return nil, err
	}
	outp, err := cmd.StdoutPipe()
	if err != nil {
		return nil, err
	}
	cmd.Stderr = nil // /dev/null, without a copying goroutine (it would never be durably blocked)
	if err := cmd.Start(); err != nil {
		return nil, err
	}
	sc := bufio.NewScanner(outp)
	sc.Buffer(make([]byte, 1<<20), 1<<20)
	return &procBackend{cmd: cmd, in: in, out: sc}, nil
}

func (p *procBackend) call(rq procReq) (procResp, error) {
	b, _ := json.Marshal(rq)
	if _, err := p.in.Write(append(b, '\n')); err != nil {
		return procResp{}, err
	}
	for p.out.Scan() {
		line := p.out.Bytes()
		if len(line) == 0 || line[0] != '{' {
			continue // test framework chatter
		}
		var rs procResp
		if err := json.Unmarshal(line, &rs); err != nil {
			continue
		}
		return rs, nil
	}
	return procResp{}, fmt.Errorf("child exited: %v", p.out.Err())
}

func b64p(b []byte) *string {
	if b == nil {
		return nil
	}
	s := base64.StdEncoding.EncodeToString(b)
	return &s
}

func (p *procBackend) Fetch(ctx context.Context, id [32]byte) (ctlog.LockedCheckpoint, error) {
	rs, err := p.call(procReq{Op: "fetch", ID: hex.EncodeToString(id[:])})
	if err != nil {
		return nil, err
	}
	if rs.NotFound {
		return nil, fmt.Errorf("%w (child)", ctlog.ErrLogNotFound)
	}
	if rs.Err != "" {
		return nil, errors.New(rs.Err)
	}
	v, _ := base64.StdEncoding.DecodeString(rs.Val)
	return &procCkpt{h: rs.H, b: v}, nil
}

func (p *procBackend) Replace(ctx context.Context, old ctlog.LockedCheckpoint, new []byte) (ctlog.LockedCheckpoint, error) {
	o, ok := old.(*procCkpt)
	if !ok {
		return nil, errors.New("foreign checkpoint")
	}
	rs, err := p.call(procReq{Op: "replace", H: o.h, Val: b64p(new)})
	if err != nil {
		return nil, err
	}
	if rs.Err != "" {
		return nil, errors.New(rs.Err)
	}
	v, _ := base64.StdEncoding.DecodeString(rs.Val)
	return &procCkpt{h: rs.H, b: v}, nil
}

func (p *procBackend) Create(ctx context.Context, id [32]byte, new []byte) error {
	rs, err := p.call(procReq{Op: "create", ID: hex.EncodeToString(id[:]), Val: b64p(new)})
	if err != nil {
		return err
	}
	if rs.Err != "" {
		return errors.New(rs.Err)
	}
	return nil
}

func (p *procBackend) stop() {
	p.call(procReq{Op: "quit"})
	p.in.Close()
	p.cmd.Wait()
}
