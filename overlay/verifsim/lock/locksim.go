package lock

import (
	"bytes"
	"context"
	"crypto/sha256"
	"encoding/json"
	"errors"
	"fmt"
	"io"
	"log/slog"
	"net/http"
	"os"
	"path/filepath"
	"runtime/debug"
	"sort"
	"strings"
	"sync"
	"testing"
	"testing/synctest"
	"time"

	"crawshaw.io/sqlite"
	"crawshaw.io/sqlite/sqlitex"
	"filippo.io/sunlight/internal/ctlog"
	"filippo.io/sunlight/internal/verifsim/core"
	"github.com/anishathalye/porcupine"
)

type Profile struct {
	Prop      string `json:"prop"`
	Tag       string `json:"tag"`
	Backend   string `json:"backend"` // sqlite | dynamodb | etag
	Clients   int    `json:"clients"`
	Ops       int    `json:"ops_per_client"`
	IDs       int    `json:"ids"`
	FaultW    int    `json:"fault_w"`
	StmtYield bool   `json:"stmt_yield,omitempty"`  // sqlite: yield at every statement start
	Shared    bool   `json:"shared_conn,omitempty"` // sqlite: clients share one backend object
	Reopen    bool   `json:"reopen,omitempty"`
	Procs     bool   `json:"procs,omitempty"` // sqlite: every client is a separate OS process
	Chunked   bool   `json:"chunked_get,omitempty"` // etag: GET answered with chunked encoding, no Content-Length
	Steps     int    `json:"steps"`
}

func MakeProfile(prop string, seed uint64, tier string) *Profile {
	r := core.NewRand(core.Mix(seed, 0x10c4))
	p := &Profile{Prop: prop, Steps: 600}
	p.Backend = []string{"sqlite", "dynamodb", "etag"}[r.Intn(3)]
	p.Clients = 2 + r.Intn(3)
	p.Ops = 3 + r.Intn(6)
	p.IDs = 1 + r.Intn(2)
	p.Tag = p.Backend + "+faultfree"
	switch p.Backend {
	case "sqlite":
		p.Shared = r.Chance(1, 4)
		p.StmtYield = !p.Shared && r.Chance(2, 3)
		p.Reopen = r.Chance(1, 2)
		if r.Chance(1, 16) || (tier == "thorough" && r.Chance(1, 4)) {
			p.Procs, p.Shared, p.StmtYield = true, false, false
			p.Tag = "sqlite+processes"
		}
	default:
		if r.Chance(1, 2) {
			p.FaultW = []int{5, 15}[r.Intn(2)]
			p.Tag = p.Backend + "+faults"
		}
		if p.Backend == "etag" && r.Chance(1, 3) {
			p.Chunked = true
			p.Tag += "+chunked"
		}
	}
	return p
}

func (p *Profile) JSON() json.RawMessage { b, _ := json.Marshal(p); return b }

func ProfileFromJSON(b []byte) (*Profile, error) {
	p := &Profile{}
	return p, json.Unmarshal(b, p)
}

type opSpec struct {
	kind string // create fetch replace reopen
	id   int
	val  []byte
	same bool // replace: write back the bytes the handle holds
}

type opRec struct {
	n       int
	client  int
	kind    string
	id      int
	val     []byte
	old     []byte
	call    int64
	ret     int64
	err     error
	got     []byte
	faulted bool
	done    bool
}

type client struct {
	idx    int
	be     ctlog.LockBackend
	sq     *ctlog.SQLiteBackend
	proc   *procBackend
	last   map[int]ctlog.LockedCheckpoint
	script []opSpec
	pos    int
	busy   bool
	cur    *opRec
}

type world struct {
	sim     *core.Sim
	prof    *Profile
	tmp     string
	clients []*client
	ids     [][32]byte
	hist    []*opRec
	evseq   int64
	net     *pipeNet
	ddb     *fakeDDB
	s3      *fakeS3
	srv     *http.Server
	dbPath  string
	sharedBE *ctlog.SQLiteBackend
	allSQ   []*ctlog.SQLiteBackend
	closedSQ map[*ctlog.SQLiteBackend]bool
	noteMu   sync.Mutex
	notes    []string
	children []*procBackend
}

func (w *world) flush() {
	w.noteMu.Lock()
	n := w.notes
	w.notes = nil
	w.noteMu.Unlock()
	if len(n) > 0 {
		w.sim.LogSorted(n)
	}
}

var lastTrace []core.Cmd

func (w *world) v(class, format string, a ...any) { w.sim.Violate("C05", class, format, a...) }

func Run(t *testing.T, seed uint64, prof *Profile, replay []core.Cmd, keepLog bool) *core.RunResult {
	start := time.Now()
	sim := core.NewSim(seed)
	sim.KeepLog(keepLog)
	tmp, err := os.MkdirTemp(tmpRoot(), "locksim-")
	if err != nil {
		return &core.RunResult{Seed: seed, Infra: err.Error()}
	}
	w := &world{sim: sim, prof: prof, tmp: tmp, closedSQ: map[*ctlog.SQLiteBackend]bool{}}
	oldTransport := http.DefaultTransport
	defer func() {
		http.DefaultTransport = oldTransport
		for _, b := range w.allSQ {
			if !w.closedSQ[b] {
				b.VerifClose()
			}
		}
		for _, ch := range w.children {
			ch.stop()
		}
		os.RemoveAll(tmp)
	}()
	var infra string
	func() {
		defer func() {
			if r := recover(); r != nil {
				s := fmt.Sprint(r)
				if strings.Contains(s, "deadlock: main bubble goroutine has exited") {
					return
				}
				infra = "panic: " + s + "\n" + string(debug.Stack())
			}
		}()
		synctest.Test(t, func(t *testing.T) {
			defer func() {
				if r := recover(); r != nil {
					infra = "panic in bubble: " + fmt.Sprint(r) + "\n" + string(debug.Stack())
				}
			}()
			w.main(replay)
		})
	}()
	lastTrace = sim.Trace
	res := &core.RunResult{Seed: seed, Profile: prof.JSON(), ProfileTag: prof.Tag, Steps: sim.Step,
		LogHash: sim.LogHash(), SchedHash: core.SchedHash(sim.Trace), Faults: core.FaultCounts(sim.Trace),
		Probes: sim.Probes, Violations: sim.Viol, Infra: infra, WallMicros: time.Since(start).Microseconds()}
	res.Nontrivial = len(res.Faults) > 0 || sim.Probes["concurrent.ops"] > 0
	if keepLog {
		res.Sample = sim.Log()
	}
	return res
}

func tmpRoot() string {
	if d := os.Getenv("VERIF_TMP"); d != "" {
		return d
	}
	if fi, err := os.Stat("/dev/shm"); err == nil && fi.IsDir() {
		return "/dev/shm"
	}
	return os.TempDir()
}

var discard = slog.New(slog.NewTextHandler(io.Discard, nil))

// gate parks a request of the fakes until the scheduler decides.
func (w *world) gate(client int, kind, key string, mut bool) verdict {
	k := key
	if len(k) > 12 {
		k = k[:12]
	}
	op := &core.Op{ID: w.sim.NewOpID(client, 0, kind, k), Inst: client, Kind: kind, Key: k, Mut: mut}
	out := w.sim.Park(op)
	return verdict(out)
}

type tracer struct {
	w      *world
	client int
}
type tracerTask struct {
	t     *tracer
	query string
}

func (t *tracer) NewTask(name string) sqlite.TracerTask { return &tracerTask{t: t, query: name} }
func (t *tracer) Push(name string)                      {}
func (t *tracer) Pop()                                  {}
func (tt *tracerTask) StartRegion(regionType string) {
	if regionType != "Step" || tt.t.w.sim == nil {
		return
	}
	q := strings.Fields(tt.query)
	k := "sql"
	if len(q) > 0 {
		k = strings.ToUpper(q[0])
	}
	op := &core.Op{ID: tt.t.w.sim.NewOpID(tt.t.client, 0, "sql.step", k), Inst: tt.t.client, Kind: "sql.step", Key: k}
	tt.t.w.sim.Park(op)
}
func (tt *tracerTask) EndRegion() {}
func (tt *tracerTask) End()       {}

func (w *world) openBackend(c *client) error {
	p := w.prof
	ctx := context.Background()
	switch p.Backend {
	case "sqlite":
		if p.Procs {
			ch, err := startChild(w.dbPath)
			if err != nil {
				return err
			}
			w.children = append(w.children, ch)
			c.be, c.proc = ch, ch
			return nil
		}
		if p.Shared {
			if w.sharedBE == nil {
				b, err := ctlog.NewSQLiteBackend(ctx, w.dbPath, discard)
				if err != nil {
					return err
				}
				w.sharedBE = b
				w.allSQ = append(w.allSQ, b)
			}
			c.be, c.sq = w.sharedBE, w.sharedBE
			return nil
		}
		b, err := ctlog.NewSQLiteBackend(ctx, w.dbPath, discard)
		if err != nil {
			return err
		}
		w.allSQ = append(w.allSQ, b)
		if p.StmtYield {
			b.VerifConn().SetTracer(&tracer{w: w, client: c.idx})
		}
		c.be, c.sq = b, b
	case "dynamodb":
		http.DefaultTransport = &http.Transport{DialContext: w.net.dialer(c.idx), DisableCompression: true, DisableKeepAlives: true}
		b, err := ctlog.NewDynamoDBBackend(ctx, "us-east-1", "locks", "http://ddb.sim", discard)
		if err != nil {
			return err
		}
		c.be = b
	case "etag":
		http.DefaultTransport = &http.Transport{DialContext: w.net.dialer(c.idx), DisableCompression: true, DisableKeepAlives: true}
		b, err := ctlog.NewETagBackend(ctx, "us-east-1", "locks", "http://s3.sim", discard)
		if err != nil {
			return err
		}
		c.be = b
	}
	return nil
}

func (w *world) main(replay []core.Cmd) {
	p := w.prof
	sim := w.sim
	for i := 0; i < p.IDs; i++ {
		w.ids = append(w.ids, sha256.Sum256([]byte(fmt.Sprintf("log id %d", i))))
	}
	switch p.Backend {
	case "sqlite":
		w.dbPath = filepath.Join(w.tmp, "lock.db")
		conn, err := sqlite.OpenConn(w.dbPath, 0)
		if err != nil {
			panic(err)
		}
		if err := sqlitex.ExecScript(conn, "CREATE TABLE checkpoints (logID BLOB PRIMARY KEY, body BLOB NOT NULL) STRICT;"); err != nil {
			panic(err)
		}
		conn.Close()
	case "dynamodb":
		w.net = newPipeNet()
		w.ddb = newFakeDDB("locks", w.gate)
		w.srv = serve(w.net, w.ddb)
	case "etag":
		w.net = newPipeNet()
		w.s3 = newFakeS3("locks", w.gate)
		w.s3.chunked = p.Chunked
		w.srv = serve(w.net, w.s3)
	}
	r := core.NewRand(core.Mix(sim.Seed, 0x5c71))
	usedEmpty := map[int]bool{}
	nval := 0
	mkval := func(id int) []byte {
		nval++
		switch x := r.Intn(10); {
		case x == 0 && !usedEmpty[id]:
			usedEmpty[id] = true
			if p.Backend != "dynamodb" && r.Chance(1, 2) {
				return nil
			}
			return []byte{}
		case x <= 2:
			return []byte(fmt.Sprintf("v%d\x00mid\x00%d\n\x00", nval, nval))
		default:
			return []byte(fmt.Sprintf("checkpoint-%d\nline two\n", nval))
		}
	}
	for i := 0; i < p.Clients+1; i++ {
		c := &client{idx: i, last: map[int]ctlog.LockedCheckpoint{}}
		if i < p.Clients {
			for k := 0; k < p.Ops; k++ {
				id := r.Intn(p.IDs)
				var s opSpec
				switch x := r.Intn(10); {
				case x < 2:
					s = opSpec{kind: "create", id: id, val: mkval(id)}
				case x < 5:
					s = opSpec{kind: "fetch", id: id}
				case x < 9:
					s = opSpec{kind: "replace", id: id, val: mkval(id)}
					if r.Chance(1, 8) {
						s.same = true // write back the value the handle holds
					}
				default:
					if p.Reopen && !p.Shared {
						s = opSpec{kind: "reopen"}
					} else {
						s = opSpec{kind: "fetch", id: id}
					}
				}
				c.script = append(c.script, s)
			}
		} else {
			// the last client appears at the end: a fresh connection must see the
			// last committed values
			for id := 0; id < p.IDs; id++ {
				c.script = append(c.script, opSpec{kind: "fetch", id: id})
			}
		}
		w.clients = append(w.clients, c)
	}
	for _, c := range w.clients[:p.Clients] {
		if err := w.openBackend(c); err != nil {
			panic("open backend: " + err.Error())
		}
	}
	ri := 0
	for sim.Step < p.Steps {
		synctest.Wait()
		w.flush()
		var cmd core.Cmd
		if replay != nil {
			if ri >= len(replay) {
				break
			}
			cmd = replay[ri]
			ri++
		} else {
			en := w.enabled(false)
			if len(en) == 0 {
				break
			}
			cmd = sim.Choose(en)
		}
		if w.exec(cmd) {
			sim.Trace = append(sim.Trace, cmd)
			sim.Logf("cmd %s", cmd.String())
			sim.Step++
		}
	}
	// drain without faults
	for i := 0; i < 4000; i++ {
		synctest.Wait()
		w.flush()
		en := w.enabled(true)
		if len(en) == 0 {
			break
		}
		w.exec(en[0].Cmd)
	}
	synctest.Wait()
	// final reader on a fresh connection
	last := w.clients[p.Clients]
	if err := w.openBackend(last); err != nil {
		panic(err)
	}
	for i := 0; i < 400; i++ {
		synctest.Wait()
		w.flush()
		en := w.enabledFor(last, true)
		if len(en) == 0 {
			break
		}
		w.exec(en[0].Cmd)
	}
	synctest.Wait()
	w.flush()
	for _, c := range w.clients {
		if c.busy {
			w.v("hang", "client %d: %s never returned", c.idx, c.cur.kind)
		}
	}
	w.check()
	if w.srv != nil {
		w.net.Close()
		w.srv.Close()
	}
}

func (w *world) enabled(drain bool) []core.WCmd {
	var out []core.WCmd
	busy := 0
	for _, c := range w.clients[:w.prof.Clients] {
		out = append(out, w.enabledFor(c, drain)...)
		if c.busy {
			busy++
		}
	}
	if busy >= 2 {
		w.sim.Probe("concurrent.ops")
	}
	return out
}

func (w *world) enabledFor(c *client, drain bool) []core.WCmd {
	p := w.prof
	var out []core.WCmd
	parkedAny := false
	for _, op := range w.sim.Parked() {
		if op.Inst != c.idx {
			continue
		}
		parkedAny = true
		out = append(out, core.WCmd{Cmd: core.Cmd{A: "rel", Op: op.ID, Out: string(vOK)}, W: 100})
		if drain || p.FaultW == 0 || op.Kind == "sql.step" {
			continue
		}
		for _, v := range []verdict{v500, v503, vCutBefore} {
			out = append(out, core.WCmd{Cmd: core.Cmd{A: "rel", Op: op.ID, Out: string(v)}, W: p.FaultW})
		}
		if op.Mut {
			out = append(out, core.WCmd{Cmd: core.Cmd{A: "rel", Op: op.ID, Out: string(vCutAfter)}, W: p.FaultW * 2})
		} else if op.Kind == "ddb.GetItem" {
			out = append(out, core.WCmd{Cmd: core.Cmd{A: "rel", Op: op.ID, Out: string(vStale)}, W: p.FaultW * 2})
		}
	}
	if !c.busy && c.pos < len(c.script) {
		out = append(out, core.WCmd{Cmd: core.Cmd{A: "op", I: c.idx}, W: 60})
	}
	if c.busy && !parkedAny {
		// the SDK sleeps between retries: let time pass
		out = append(out, core.WCmd{Cmd: core.Cmd{A: "adv", N: 10}, W: 40})
	}
	return out
}

func (w *world) exec(c core.Cmd) bool {
	switch c.A {
	case "rel":
		op := w.sim.ParkedOp(c.Op)
		if op == nil {
			return false
		}
		if c.Out != string(vOK) {
			w.sim.Probe("fault." + c.Out + "." + op.Kind)
			if cl := w.clients[op.Inst]; cl.cur != nil {
				cl.cur.faulted = true
			}
		}
		w.sim.Release(op, c.Out)
		return true
	case "adv":
		time.Sleep(time.Duration(c.N) * time.Millisecond)
		return true
	case "op":
		if c.I < 0 || c.I >= len(w.clients) {
			return false
		}
		cl := w.clients[c.I]
		if cl.busy || cl.pos >= len(cl.script) {
			return false
		}
		w.startOp(cl)
		return true
	}
	return false
}

func (w *world) startOp(c *client) {
	s := c.script[c.pos]
	c.pos++
	if s.kind == "reopen" {
		if c.proc != nil {
			// the process exits and a new one opens the database
			c.proc.stop()
			if err := w.openBackend(c); err != nil {
				panic(err)
			}
			c.last = map[int]ctlog.LockedCheckpoint{}
			w.sim.Probe("reopen.process")
		} else if c.sq != nil && !w.prof.Shared {
			c.sq.VerifClose()
			w.closedSQ[c.sq] = true
			if err := w.openBackend(c); err != nil {
				panic(err)
			}
			c.last = map[int]ctlog.LockedCheckpoint{}
			w.sim.Probe("reopen")
		}
		return
	}
	kind := s.kind
	if kind == "replace" && c.last[s.id] == nil {
		kind = "fetch"
	}
	w.evseq++
	rec := &opRec{n: len(w.hist), client: c.idx, kind: kind, id: s.id, val: s.val, call: w.evseq}
	if kind == "replace" {
		rec.old = bytes.Clone(c.last[s.id].Bytes())
		if s.same {
			s.val = bytes.Clone(rec.old)
			rec.val = s.val
			w.sim.Probe("replace.same-value")
		}
	}
	w.hist = append(w.hist, rec)
	c.busy = true
	c.cur = rec
	go func() {
		ctx := context.Background()
		switch kind {
		case "create":
			rec.err = c.be.Create(ctx, w.ids[s.id], s.val)
		case "fetch":
			lc, err := c.be.Fetch(ctx, w.ids[s.id])
			rec.err = err
			if err == nil {
				rec.got = bytes.Clone(lc.Bytes())
				c.last[s.id] = lc
			}
		case "replace":
			lc, err := c.be.Replace(ctx, c.last[s.id], s.val)
			rec.err = err
			if err == nil {
				c.last[s.id] = lc
				if !bytes.Equal(lc.Bytes(), s.val) {
					rec.err = nil
					w.v("replace-result", "Replace returned a LockedCheckpoint with other bytes than written")
				}
			}
		}
		w.evseq++
		rec.ret = w.evseq
		rec.done = true
		c.busy = false
		c.cur = nil
		w.noteMu.Lock()
		w.notes = append(w.notes, fmt.Sprintf("ret c%d %s id%d err=%v got=%q", c.idx, kind, s.id, rec.err != nil, clipb(rec.got)))
		w.noteMu.Unlock()
	}()
}

func clipb(b []byte) string {
	if len(b) > 24 {
		return string(b[:24])
	}
	return string(b)
}

// ---------------------------------------------------------------------------
// oracle

type regState struct {
	exists bool
	val    string
}

func (w *world) check() {
	for id := range w.ids {
		var ops []porcupine.Operation
		for _, r := range w.hist {
			if r.id != id || !r.done {
				continue
			}
			ops = append(ops, porcupine.Operation{ClientId: r.client, Input: r, Output: r, Call: r.call, Return: r.ret})
			// direct assertions
			if r.kind == "fetch" && r.err != nil && !r.faulted && !errors.Is(r.err, ctlog.ErrLogNotFound) {
				w.v("notfound-error", "[%s] fault-free Fetch failed with an error that is not ErrLogNotFound: %v", w.prof.Backend, r.err)
			}
		}
		if len(ops) > 64 {
			ops = ops[:64]
		}
		model := porcupine.NondeterministicModel{
			Init: func() []interface{} { return []interface{}{regState{}} },
			Step: func(state, input, output interface{}) []interface{} {
				s := state.(regState)
				r := input.(*opRec)
				switch r.kind {
				case "fetch":
					if r.err == nil {
						if s.exists && s.val == string(r.got) {
							return []interface{}{s}
						}
						return nil
					}
					if errors.Is(r.err, ctlog.ErrLogNotFound) || !r.faulted {
						if !s.exists {
							return []interface{}{s}
						}
						return nil
					}
					return []interface{}{s}
				case "create":
					applied := regState{true, string(r.val)}
					if r.err == nil {
						if !s.exists {
							return []interface{}{applied}
						}
						return nil
					}
					if !r.faulted {
						// a definite refusal: the log existed
						if s.exists {
							return []interface{}{s}
						}
						return nil
					}
					if !s.exists {
						return []interface{}{s, applied}
					}
					return []interface{}{s}
				case "replace":
					applied := regState{true, string(r.val)}
					match := s.exists && s.val == string(r.old)
					if r.err == nil {
						if match {
							return []interface{}{applied}
						}
						return nil
					}
					if !r.faulted {
						if !match {
							return []interface{}{s}
						}
						return nil
					}
					if match {
						return []interface{}{s, applied}
					}
					return []interface{}{s}
				}
				return nil
			},
			Equal: func(a, b interface{}) bool { return a.(regState) == b.(regState) },
		}
		res := porcupine.CheckOperationsTimeout(model.ToModel(), ops, 30*time.Second)
		switch res {
		case porcupine.Illegal:
			w.v("not-linearizable", "[%s] history of log id %d (%d operations) is not linearizable as a CAS register: %s", w.prof.Backend, id, len(ops), w.describe(id))
		case porcupine.Unknown:
			w.sim.Probe("porcupine.inconclusive")
		default:
			w.sim.Probe("porcupine.ok")
		}
	}
}

func (w *world) describe(id int) string {
	var recs []*opRec
	for _, r := range w.hist {
		if r.id == id && r.done {
			recs = append(recs, r)
		}
	}
	sort.Slice(recs, func(i, j int) bool { return recs[i].call < recs[j].call })
	var b strings.Builder
	for _, r := range recs {
		fmt.Fprintf(&b, "[c%d %s", r.client, r.kind)
		if r.kind == "replace" {
			fmt.Fprintf(&b, " %q->%q", clipb(r.old), clipb(r.val))
		}
		if r.kind == "create" {
			fmt.Fprintf(&b, " %q", clipb(r.val))
		}
		if r.err != nil {
			fmt.Fprintf(&b, " ERR")
			if r.faulted {
				fmt.Fprintf(&b, "(faulted)")
			}
		} else if r.kind == "fetch" {
			fmt.Fprintf(&b, " =%q", clipb(r.got))
		}
		fmt.Fprintf(&b, " @%d-%d] ", r.call, r.ret)
	}
	s := b.String()
	if len(s) > 1500 {
		s = s[:1500] + "..."
	}
	return s
}
