//go:build verif

package witness

// Handles for the verification harness (compiled in through -overlay).

// VerifMutexHeld reports whether a mutex the witness holds across backend
// calls (a per-log mutex, or logsMu) is currently held.
func (w *Witness) VerifMutexHeld() bool {
	if !w.logsMu.TryLock() {
		return true
	}
	logs := make([]*logState, 0, len(w.logs))
	for _, l := range w.logs {
		logs = append(logs, l)
	}
	w.logsMu.Unlock()
	for _, l := range logs {
		if !l.mu.TryLock() {
			return true
		}
		l.mu.Unlock()
	}
	return false
}

// VerifLockKeys returns the lock-store keys the witness uses for an origin.
func VerifLockKeys(c *Config, origin string) (checkpoint, mirror, config [32]byte) {
	return backendKeyForCheckpoint(c, origin), backendKeyForMirrorCheckpoint(c, origin), backendKeyForConfig(c)
}

// VerifNextEntry returns the in-memory upload frontier of a mirrored log (-1 if unknown).
func (w *Witness) VerifNextEntry(origin string) int64 {
	l, ok := w.stateForOrigin(origin)
	if !ok {
		return -1
	}
	l.mu.Lock()
	defer l.mu.Unlock()
	return l.nextEntry
}
