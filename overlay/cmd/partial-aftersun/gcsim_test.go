package main

// gcsim (C18): directories produced by the real sequencer over the real
// LocalBackend (partials left behind by a seeded history of rounds, a lock
// checkpoint ahead of storage, leftovers of crashed uploads, junk), and mirror
// directories rendered by the reference model; the clean-up code runs on them
// and the result is compared with what the property allows.

import (
	"bytes"
	"compress/gzip"
	"context"
	"crypto/sha256"
	"crypto/x509"
	"encoding/base64"
	"encoding/json"
	"errors"
	"fmt"
	"io"
	"io/fs"
	"log/slog"
	"os"
	"os/exec"
	"path/filepath"
	"sort"
	"strings"
	"sync"
	"testing"
	"time"

	"filippo.io/mldsa"
	"filippo.io/sunlight"
	"filippo.io/sunlight/internal/ctlog"
	"filippo.io/sunlight/internal/verifsim/core"
	"filippo.io/sunlight/internal/verifsim/corpus"
	"filippo.io/sunlight/internal/verifsim/ref"
	"filippo.io/sunlight/internal/witness"
	"filippo.io/torchwood"
	"github.com/prometheus/client_golang/prometheus"
)

type Profile struct {
	Prop      string  `json:"prop"`
	Tag       string  `json:"tag"`
	Kind      string  `json:"kind"` // log | mirror
	Sizes     []int64 `json:"sizes"`
	LockAhead int64   `json:"lock_ahead"` // extra entries committed to the lock store but not published
	Junk      int     `json:"junk"`
	// Forge: the published checkpoint file does not verify and claims the size
	// the lock store is at (1: size line altered after signing, 2: signed by
	// another key under the same name).
	Forge int `json:"forge,omitempty"`
	Binary    bool    `json:"binary"`
}

var boundary = []int64{1, 2, 3, 100, 255, 256, 257, 300, 511, 512, 513, 600, 767, 768, 769, 1000, 1024, 1025}

func MakeProfile(prop string, seed uint64, tier string) *Profile {
	r := core.NewRand(core.Mix(seed, 0x6c6c))
	p := &Profile{Prop: prop, Kind: "log", Tag: "log"}
	if r.Chance(1, 4) {
		p.Kind, p.Tag = "mirror", "mirror"
	}
	n := 1 + r.Intn(6)
	set := map[int64]bool{}
	for i := 0; i < n; i++ {
		set[boundary[r.Intn(len(boundary))]] = true
	}
	big := tier == "thorough" && r.Chance(1, 10) || r.Chance(1, 60)
	if big {
		set[65535+int64(r.Intn(4))] = true
		if r.Chance(1, 2) {
			set[65536+256+int64(r.Intn(3))] = true
		}
		p.Tag += "+65k"
	}
	for s := range set {
		p.Sizes = append(p.Sizes, s)
	}
	sort.Slice(p.Sizes, func(i, j int) bool { return p.Sizes[i] < p.Sizes[j] })
	if p.Kind == "log" && r.Chance(1, 3) {
		p.LockAhead = []int64{1, 2, 255, 256, 300}[r.Intn(5)]
		p.Tag += "+lockahead"
	}
	if r.Chance(1, 2) {
		p.Junk = 1 + r.Intn(6)
		p.Tag += "+junk"
	}
	p.Binary = r.Chance(1, 4)
	if p.Kind == "log" && r.Chance(1, 6) {
		p.Forge = 1 + r.Intn(2)
		if p.LockAhead == 0 {
			p.LockAhead = []int64{255, 256, 300}[r.Intn(3)]
		}
		p.Tag += "+forged"
	}
	return p
}

func (p *Profile) JSON() json.RawMessage { b, _ := json.Marshal(p); return b }
func ProfileFromJSON(b []byte) (*Profile, error) {
	p := &Profile{}
	return p, json.Unmarshal(b, p)
}

var lastTrace []core.Cmd

const engineNameGC = "gc"

type memLock struct {
	mu sync.Mutex
	m  map[[32]byte][]byte
}
type memCkpt struct {
	id [32]byte
	b  []byte
}

func (c *memCkpt) Bytes() []byte { return c.b }
func (l *memLock) Fetch(ctx context.Context, id [32]byte) (ctlog.LockedCheckpoint, error) {
	l.mu.Lock()
	defer l.mu.Unlock()
	b, ok := l.m[id]
	if !ok {
		return nil, ctlog.ErrLogNotFound
	}
	return &memCkpt{id, b}, nil
}
func (l *memLock) Replace(ctx context.Context, old ctlog.LockedCheckpoint, new []byte) (ctlog.LockedCheckpoint, error) {
	l.mu.Lock()
	defer l.mu.Unlock()
	o := old.(*memCkpt)
	if !bytes.Equal(l.m[o.id], o.b) {
		return nil, errors.New("conflict")
	}
	l.m[o.id] = new
	return &memCkpt{o.id, new}, nil
}
func (l *memLock) Create(ctx context.Context, id [32]byte, new []byte) error {
	l.mu.Lock()
	defer l.mu.Unlock()
	if _, ok := l.m[id]; ok {
		return errors.New("exists")
	}
	l.m[id] = new
	return nil
}

// dropBackend wraps a backend and fails the named uploads (a crash before them).
type dropBackend struct {
	ctlog.Backend
	drop func(key string) bool
}

func (d *dropBackend) Upload(ctx context.Context, key string, data []byte, opts *ctlog.UploadOptions) error {
	if d.drop != nil && d.drop(key) {
		return errors.New("gcsim: process died before this upload")
	}
	return d.Backend.Upload(ctx, key, data, opts)
}
func (d *dropBackend) Discard(ctx context.Context, key string) error {
	if d.drop != nil && d.drop(key) {
		return errors.New("gcsim: process died before this discard")
	}
	return d.Backend.Discard(ctx, key)
}
func (d *dropBackend) Metrics() []prometheus.Collector { return nil }

var quiet = slog.New(slog.NewTextHandler(io.Discard, nil))

type gcWorld struct {
	sim   *core.Sim
	prof  *Profile
	dir   string
	cfg   *ctlog.Config
	lock  *memLock
	nItem int
	pubSize, lockSize int64
	broken        bool // the junk damaged the log itself: only the removal rules apply
	mirrorEntries [][]byte
	mirrorTree    *ref.Tree
	origin        string
}

func (w *gcWorld) v(class, format string, a ...any) { w.sim.Violate("C18", class, format, a...) }

func tmpRootGC() string {
	if d := os.Getenv("VERIF_TMP"); d != "" {
		return d
	}
	if fi, err := os.Stat("/dev/shm"); err == nil && fi.IsDir() {
		return "/dev/shm"
	}
	return os.TempDir()
}

func Run(t *testing.T, seed uint64, prof *Profile, replay []core.Cmd, keepLog bool) *core.RunResult {
	start := time.Now()
	sim := core.NewSim(seed)
	sim.KeepLog(keepLog)
	tmp, err := os.MkdirTemp(tmpRootGC(), "gcsim-")
	if err != nil {
		return &core.RunResult{Seed: seed, Infra: err.Error()}
	}
	defer func() {
		exec.Command("chattr", "-R", "-i", tmp).Run()
		os.RemoveAll(tmp)
	}()
	w := &gcWorld{sim: sim, prof: prof, dir: filepath.Join(tmp, "data")}
	var infra string
	func() {
		defer func() {
			if r := recover(); r != nil {
				infra = fmt.Sprint("panic: ", r)
			}
		}()
		ctlog.VerifSetClock(func() int64 { return time.Now().UnixMilli() })
		if prof.Kind == "mirror" {
			w.runMirror(tmp)
		} else {
			w.runLog(tmp)
		}
	}()
	sim.Trace = []core.Cmd{{A: "dir", S: prof.Tag}}
	lastTrace = sim.Trace
	pj := prof.JSON()
	res := &core.RunResult{Seed: seed, Profile: pj, ProfileTag: prof.Tag, Steps: 1,
		LogHash: sim.LogHash(), SchedHash: core.SchedHash([]core.Cmd{{A: "dir", S: string(pj)}}), Faults: map[string]int64{},
		Probes: sim.Probes, Violations: sim.Viol, Infra: infra, WallMicros: time.Since(start).Microseconds()}
	res.Nontrivial = sim.Probes["removed.files"] > 0 || prof.Junk > 0 || prof.LockAhead > 0
	if keepLog {
		res.Sample = sim.Log()
	}
	return res
}

func (w *gcWorld) entry() *ctlog.PendingLogEntry {
	w.nItem++
	return &ctlog.PendingLogEntry{Certificate: []byte(fmt.Sprintf("gc-entry-%d-%x", w.nItem, sha256.Sum256([]byte{byte(w.nItem)})))}
}

func (w *gcWorld) grow(l *ctlog.Log, to int64) error {
	n, _, _ := l.VerifTree()
	var waits []ctlog.VerifWaitFunc
	for i := n; i < to; i++ {
		f, _ := l.VerifAddLeafToPool(context.Background(), w.entry(), false)
		waits = append(waits, f)
	}
	time.Sleep(2 * time.Millisecond)
	if err := l.VerifSequence(context.Background()); err != nil {
		return err
	}
	for _, f := range waits {
		if _, err := f(context.Background()); err != nil {
			return err
		}
	}
	return nil
}

func (w *gcWorld) runLog(tmp string) {
	p := w.prof
	ctx := context.Background()
	be, err := ctlog.NewLocalBackend(ctx, w.dir, quiet)
	if err != nil {
		panic(err)
	}
	wk, _ := mldsa.NewPrivateKey(mldsa.MLDSA44(), sha256sum("gc witness"))
	w.lock = &memLock{m: map[[32]byte][]byte{}}
	db := &dropBackend{Backend: be}
	w.cfg = &ctlog.Config{Name: "gc.example/log", Key: corpus.Key("gc log"), WitnessKey: wk, Cache: filepath.Join(tmp, "cache.db"),
		Backend: db, Lock: w.lock, Log: quiet, NotAfterStart: time.Now().Add(-time.Hour), NotAfterLimit: time.Now().Add(1000 * time.Hour)}
	if err := ctlog.CreateLog(ctx, w.cfg); err != nil {
		panic(err)
	}
	l, err := ctlog.LoadLog(ctx, w.cfg)
	if err != nil {
		panic(err)
	}
	for _, s := range p.Sizes {
		if err := w.grow(l, s); err != nil {
			panic(fmt.Sprintf("grow to %d: %v", s, err))
		}
	}
	w.pubSize = p.Sizes[len(p.Sizes)-1]
	w.lockSize = w.pubSize
	if p.LockAhead > 0 {
		// a round that dies after committing to the lock store and uploading its
		// tiles, before publishing the checkpoint
		db.drop = func(key string) bool { return key == "checkpoint" || strings.HasPrefix(key, "staging/") && false }
		w.grow(l, w.pubSize+p.LockAhead)
		db.drop = nil
		w.lockSize = w.pubSize + p.LockAhead
	}
	l.CloseCache()
	pkix, _ := x509.MarshalPKIXPublicKey(w.cfg.Key.Public())
	lj, _ := json.Marshal(map[string]any{"description": w.cfg.Name, "key": pkix})
	os.WriteFile(filepath.Join(w.dir, "log.v3.json"), lj, 0o644)
	w.addJunk(w.dir)
	if p.Forge > 0 {
		w.forgeCheckpoint()
	}
	before := snapshot(w.dir)
	toolErr := w.runTool(tmp, false)
	after := snapshot(w.dir)
	if p.Forge > 0 {
		// no verified checkpoint, no size: nothing may be removed
		w.sim.Probe("forged.checkpoint")
		for f := range before {
			if _, ok := after[f]; !ok {
				w.v("removed-under-unverified-checkpoint", "%s was removed although the published checkpoint does not verify under the log's key (forge kind %d)", f, p.Forge)
				break
			}
		}
		if toolErr == nil {
			w.sim.Probe("forged.tool-ok")
		}
		return
	}
	w.judge(before, after, toolErr, w.pubSize, func(s string) (ref.TileCoord, bool) { return ref.ParsePath(s) })
	if w.broken {
		return
	}
	// still complete at the published and at the lock checkpoint
	w.auditDir(after, w.pubSize, "published")
	if w.lockSize != w.pubSize {
		w.auditDir(after, w.lockSize, "lock")
	}
	// and the server restarts and sequences
	w.cfg.Cache = filepath.Join(tmp, "cache2.db")
	l2, err := ctlog.LoadLog(ctx, w.cfg)
	if err != nil {
		w.v("reload-after-gc", "LoadLog fails on the cleaned directory: %v", err)
		return
	}
	defer l2.CloseCache()
	if err := w.grow(l2, w.lockSize+1); err != nil {
		w.v("sequence-after-gc", "sequencing fails on the cleaned directory: %v", err)
		return
	}
	w.sim.Probe("reload.ok")
}

// forgeCheckpoint replaces the published checkpoint by one that claims the
// lock store's size and does not verify under the key in log.v3.json.
func (w *gcWorld) forgeCheckpoint() {
	path := filepath.Join(w.dir, "checkpoint")
	b, err := os.ReadFile(path)
	if err != nil {
		return
	}
	exec.Command("chattr", "-i", path).Run()
	switch w.prof.Forge {
	case 1:
		lines := strings.SplitN(string(b), "\n", 3)
		if len(lines) == 3 {
			lines[1] = fmt.Sprint(w.lockSize)
			os.WriteFile(path, []byte(strings.Join(lines, "\n")), 0o644)
		}
	default:
		cfg := &ctlog.Config{Name: w.cfg.Name, Key: corpus.Key("another gc log key"), WitnessKey: w.cfg.WitnessKey}
		if ck, err := ctlog.VerifSignTreeHead(cfg, w.lockSize, sha256.Sum256([]byte("forged root")), time.Now().UnixMilli()); err == nil {
			os.WriteFile(path, ck, 0o644)
		}
	}
}

func sha256sum(s string) []byte { h := sha256.Sum256([]byte(s)); return h[:] }

// addJunk adds leftovers and traps.
func (w *gcWorld) addJunk(dir string) {
	r := core.NewRand(core.Mix(w.sim.Seed, 0x7a7a))
	var dirs, partialDirs []string
	filepath.WalkDir(dir, func(p string, d fs.DirEntry, err error) error {
		if err == nil && d.IsDir() && strings.Contains(p, "/tile") {
			dirs = append(dirs, p)
			if strings.HasSuffix(p, ".p") {
				partialDirs = append(partialDirs, p)
			}
		}
		return nil
	})
	sort.Strings(dirs)
	sort.Strings(partialDirs)
	for i := 0; i < w.prof.Junk && len(dirs) > 0; i++ {
		d := dirs[r.Intn(len(dirs))]
		switch r.Intn(9) {
		case 0: // temp file of a crashed durable write
			os.WriteFile(filepath.Join(d, fmt.Sprintf(".%03d%09d", r.Intn(256), r.Intn(1e9))), []byte("partial write"), 0o600)
			w.sim.Probe("junk.tempfile")
		case 1: // unknown file
			os.WriteFile(filepath.Join(d, "README"), []byte("hello"), 0o644)
		case 2: // a superseded partial whose full tile was lost: now an EMPTY file
			if len(partialDirs) > 0 {
				pd := partialDirs[r.Intn(len(partialDirs))]
				full := strings.TrimSuffix(pd, ".p")
				if fi, err := os.Stat(full); err == nil && !fi.IsDir() {
					exec.Command("chattr", "-i", full).Run()
					os.Remove(full)
					os.WriteFile(full, nil, 0o644)
					w.sim.Probe("junk.empty-full")
					w.broken = true
				}
			}
		case 3: // ... or replaced by a directory
			if len(partialDirs) > 0 {
				pd := partialDirs[r.Intn(len(partialDirs))]
				full := strings.TrimSuffix(pd, ".p")
				if fi, err := os.Stat(full); err == nil && !fi.IsDir() {
					exec.Command("chattr", "-i", full).Run()
					os.Remove(full)
					os.Mkdir(full, 0o755)
					w.sim.Probe("junk.dir-full")
					w.broken = true
				}
			}
		case 7: // ... or a symbolic link whose target is missing, empty or a directory
			if len(partialDirs) > 0 {
				pd := partialDirs[r.Intn(len(partialDirs))]
				full := strings.TrimSuffix(pd, ".p")
				if fi, err := os.Lstat(full); err == nil && fi.Mode().IsRegular() {
					exec.Command("chattr", "-i", full).Run()
					os.Remove(full)
					target := filepath.Join(filepath.Dir(full), ".linktarget-"+filepath.Base(full))
					switch r.Intn(3) {
					case 0: // dangling
					case 1:
						os.WriteFile(target, nil, 0o644)
					case 2:
						os.Mkdir(target, 0o755)
					}
					os.Symlink(filepath.Base(target), full)
					w.sim.Probe("junk.symlink-full")
					w.broken = true
				}
			}
		case 6: // ... or gone altogether
			if len(partialDirs) > 0 {
				pd := partialDirs[r.Intn(len(partialDirs))]
				full := strings.TrimSuffix(pd, ".p")
				if fi, err := os.Stat(full); err == nil && !fi.IsDir() {
					exec.Command("chattr", "-i", full).Run()
					os.Remove(full)
					w.sim.Probe("junk.missing-full")
					w.broken = true
				}
			}
		case 8: // a partial on the right edge of the published tree at level >= 1 whose full tile is
			// already there (what a lock store ahead by a whole higher-level tile leaves behind);
			// the guard "index below size/256^(L+1)" alone protects it
			var edge []string
			for _, pd := range partialDirs {
				if _, err := os.Lstat(strings.TrimSuffix(pd, ".p")); err != nil && !strings.Contains(pd, "/tile/0/") &&
					!strings.Contains(pd, "/tile/data/") && !strings.Contains(pd, "/tile/names/") {
					edge = append(edge, pd)
				}
			}
			if len(edge) > 0 {
				full := strings.TrimSuffix(edge[r.Intn(len(edge))], ".p")
				b := make([]byte, 256*32)
				for i := range b {
					b[i] = byte(r.Intn(256))
				}
				os.WriteFile(full, b, 0o644)
				w.sim.Probe("junk.full-beside-edge-partial")
				w.broken = true
			}
		case 4: // a file with a partial-like name where a directory is expected
			os.WriteFile(filepath.Join(d, "999.p"), []byte("x"), 0o644)
		case 5: // an extra, wrongly named file inside a partial directory
			if len(partialDirs) > 0 {
				os.WriteFile(filepath.Join(partialDirs[r.Intn(len(partialDirs))], "notanumber"), []byte("x"), 0o644)
				w.sim.Probe("junk.in-partial")
			}
		}
	}
}

type fileState struct {
	dir  bool
	hash [32]byte
	size int64
}

func snapshot(dir string) map[string]fileState {
	m := map[string]fileState{}
	filepath.WalkDir(dir, func(p string, d fs.DirEntry, err error) error {
		if err != nil {
			return nil
		}
		rel, _ := filepath.Rel(dir, p)
		if d.IsDir() {
			m[rel] = fileState{dir: true}
			return nil
		}
		b, _ := os.ReadFile(p)
		m[rel] = fileState{hash: sha256.Sum256(b), size: int64(len(b))}
		return nil
	})
	return m
}

var gcBinary = os.Getenv("VERIF_GC_BINARY")

// runTool runs the clean-up: the in-package functions the way main() drives
// them, or the built binary.
func (w *gcWorld) runTool(tmp string, mirror bool) error {
	if w.prof.Binary && gcBinary != "" {
		var y string
		if mirror {
			y = fmt.Sprintf("witness:\n  localdirectory: %s\n", w.dir)
		} else {
			y = fmt.Sprintf("logs:\n  - shortname: gc\n    localdirectory: %s\n", w.dir)
		}
		cfgPath := filepath.Join(tmp, "sunlight.yaml")
		os.WriteFile(cfgPath, []byte(y), 0o644)
		out, err := exec.Command(gcBinary, "-c", cfgPath).CombinedOutput()
		w.sim.Probe("tool.binary")
		if err != nil {
			return fmt.Errorf("%v: %s", err, clip(string(out)))
		}
		return nil
	}
	w.sim.Probe("tool.inpackage")
	ctx := context.Background()
	if mirror {
		mdir := filepath.Join(w.dir, "mirror")
		ents, err := os.ReadDir(mdir)
		if err != nil {
			return err
		}
		var firstErr error
		for _, e := range ents {
			if !e.IsDir() {
				continue
			}
			root, err := os.OpenRoot(filepath.Join(mdir, e.Name()))
			if err != nil {
				return err
			}
			size, err := mirroredLogSize(root, e.Name())
			if err != nil {
				root.Close()
				if errors.Is(err, fs.ErrNotExist) {
					continue
				}
				if firstErr == nil {
					firstErr = err
				}
				continue
			}
			levels, err := fs.ReadDir(root.FS(), "tile")
			if err == nil {
				for _, level := range levels {
					if err := cleanDir(ctx, quiet, root, filepath.Join("tile", level.Name()), size, torchwood.ParseTilePath); err != nil {
						if firstErr == nil {
							firstErr = err
						}
						break
					}
				}
			}
			root.Close()
		}
		return firstErr
	}
	root, err := os.OpenRoot(w.dir)
	if err != nil {
		return err
	}
	defer root.Close()
	size, err := logSize(root)
	if err != nil {
		return err
	}
	if size != w.pubSize {
		w.v("log-size", "logSize returned %d, published checkpoint has %d", size, w.pubSize)
	}
	levels, err := fs.ReadDir(root.FS(), "tile")
	if err != nil {
		return err
	}
	for _, level := range levels {
		if err := cleanDir(ctx, quiet, root, filepath.Join("tile", level.Name()), size, sunlight.ParseTilePath); err != nil {
			return err
		}
	}
	return nil
}

func clip(s string) string {
	if len(s) > 300 {
		return s[:300]
	}
	return s
}

// judge compares the directory before and after with what may be removed.
func (w *gcWorld) judge(before, after map[string]fileState, toolErr error, size int64, parse func(string) (ref.TileCoord, bool)) {
	removed := 0
	for p, st := range before {
		now, ok := after[p]
		if ok {
			if !st.dir && now.hash != st.hash {
				w.v("file-changed", "%s was modified", p)
			}
			continue
		}
		removed++
		// p was removed: it must be a superseded partial tile (or the emptied .p directory)
		tp := p
		if i := strings.Index(tp, "tile/"); i >= 0 {
			tp = tp[i:]
		}
		if st.dir {
			if !strings.HasSuffix(p, ".p") {
				w.v("removed-other", "directory %s was removed", p)
				continue
			}
			full := strings.TrimSuffix(p, ".p")
			w.checkRemovable(before, full, tp+"/1", size, parse, p)
			continue
		}
		i := strings.LastIndex(p, ".p/")
		if i < 0 {
			w.v("removed-other", "%s was removed and is no partial tile", p)
			continue
		}
		w.checkRemovable(before, p[:i], tp, size, parse, p)
	}
	for p := range after {
		if _, ok := before[p]; !ok {
			w.v("file-created", "%s was created", p)
		}
	}
	w.sim.ProbeN("removed.files", int64(removed))
	if toolErr != nil {
		w.sim.Probe("tool.error")
		w.sim.Logf("tool error: %v", toolErr)
	} else if removed > 0 {
		w.sim.Probe("tool.removed")
	}
}

func (w *gcWorld) checkRemovable(before map[string]fileState, fullPath, tilePath string, size int64, parse func(string) (ref.TileCoord, bool), what string) {
	full, ok := before[fullPath]
	if !ok || full.dir || full.size == 0 {
		w.v("removed-without-full", "%s was removed but its full tile %s is missing, empty or a directory", what, fullPath)
		return
	}
	c, ok := parse(tilePath)
	if !ok {
		w.v("removed-unparsed", "%s was removed but is no canonical partial tile path", what)
		return
	}
	if c.W == ref.TileWidth {
		w.v("removed-full", "%s was removed and is a full tile", what)
		return
	}
	lvl := c.Level
	if lvl < 0 {
		lvl = 0
	}
	span := int64(1) << uint(8*(lvl+1))
	if c.N >= size/span {
		w.v("removed-right-edge", "%s was removed but tile index %d at level %d is not strictly left of the right edge of a tree of size %d", what, c.N, c.Level, size)
	}
}

// auditDir: the tree of the given size is completely readable from the
// directory (exact partial, or the full tile extending it).
func (w *gcWorld) auditDir(files map[string]fileState, n int64, which string) {
	for _, c := range ref.RequiredTiles(n, true) {
		p := c.Path()
		if _, ok := files[p]; ok {
			continue
		}
		if c.W != ref.TileWidth {
			fullc := c
			fullc.W = ref.TileWidth
			if st, ok := files[fullc.Path()]; ok && !st.dir && st.size > 0 {
				continue
			}
		}
		w.v("tree-incomplete", "after clean-up the %s tree of size %d lacks %s", which, n, p)
	}
}

// ---------------------------------------------------------------------------
// mirror directories (rendered by the reference model)

func (w *gcWorld) runMirror(tmp string) {
	p := w.prof
	w.origin = "gcmirror.example/log"
	oh := witness.OriginHash(w.origin)
	base := filepath.Join(w.dir, "mirror", oh)
	w.mirrorTree = &ref.Tree{}
	r := core.NewRand(core.Mix(w.sim.Seed, 0x3131))
	write := func(rel string, b []byte) {
		full := filepath.Join(base, rel)
		os.MkdirAll(filepath.Dir(full), 0o755)
		os.WriteFile(full, b, 0o444)
	}
	prev := int64(0)
	for _, s := range p.Sizes {
		for int64(len(w.mirrorEntries)) < s {
			e := []byte(fmt.Sprintf("mirror-entry-%d-%x", len(w.mirrorEntries), r.Uint64()))
			w.mirrorEntries = append(w.mirrorEntries, e)
			w.mirrorTree.Append(ref.LeafHash(e))
		}
		// the mirror writes the tiles of every package it receives: model an upload of [prev, s)
		for _, c := range ref.NewTiles(prev, s) {
			b, _ := w.mirrorTree.HashTileBytes(c)
			write(c.Path(), b)
			if c.Level == 0 {
				var raw []byte
				for i := 0; i < c.W; i++ {
					e := w.mirrorEntries[c.N*256+int64(i)]
					raw = append(raw, byte(len(e)>>8), byte(len(e)))
					raw = append(raw, e...)
				}
				var buf bytes.Buffer
				zw := gzip.NewWriter(&buf)
				zw.Write(raw)
				zw.Close()
				write(strings.Replace(ref.TileCoord{Level: -1, N: c.N, W: c.W}.Path(), "tile/data/", "tile/entries/", 1), buf.Bytes())
			}
		}
		prev = s
	}
	w.pubSize = prev
	root := w.mirrorTree.Root(prev)
	ck := fmt.Sprintf("%s\n%d\n%s\n\n— %s %s\n", w.origin, prev, base64.StdEncoding.EncodeToString(root[:]), w.origin, base64.StdEncoding.EncodeToString(make([]byte, 72)))
	write("checkpoint", []byte(ck))
	// a second origin directory without checkpoint yet, and one whose name does not match its checkpoint
	os.MkdirAll(filepath.Join(w.dir, "mirror", strings.Repeat("ab", 32), "tile", "0"), 0o755)
	w.addJunk(base)
	before := snapshot(w.dir)
	toolErr := w.runTool(tmp, true)
	after := snapshot(w.dir)
	w.judge(before, after, toolErr, w.pubSize, func(s string) (ref.TileCoord, bool) {
		return ref.ParsePath(strings.Replace(s, "tile/entries/", "tile/data/", 1))
	})
	if w.broken {
		return
	}
	// mirror tree still complete
	rel := map[string]fileState{}
	prefix := filepath.Join("mirror", oh) + "/"
	for p, st := range after {
		if strings.HasPrefix(p, prefix) {
			rel[strings.Replace(strings.TrimPrefix(p, prefix), "tile/entries/", "tile/data/", 1)] = st
		}
	}
	for _, c := range ref.RequiredTiles(w.pubSize, false) {
		if _, ok := rel[c.Path()]; ok {
			continue
		}
		if c.W != 256 {
			fc := c
			fc.W = 256
			if st, ok := rel[fc.Path()]; ok && st.size > 0 {
				continue
			}
		}
		w.v("tree-incomplete", "after clean-up the mirrored tree of size %d lacks %s", w.pubSize, c.Path())
	}
}
