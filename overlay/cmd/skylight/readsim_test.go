package main

// readsim (C19, C20): the built skylight binary over loopback, and the health
// check functions in-package on the fake clock, over directories written by
// the real sequencer / witness / LocalBackend.

import (
	"bytes"
	"context"
	"crypto/sha256"
	"encoding/json"
	"errors"
	"fmt"
	"io"
	"io/fs"
	"net"
	"net/http"
	"net/url"
	"os"
	"os/exec"
	"path"
	"path/filepath"
	"sort"
	"strconv"
	"strings"
	"testing"
	"testing/synctest"
	"time"

	"filippo.io/sunlight"
	"filippo.io/sunlight/internal/ctlog"
	"filippo.io/sunlight/internal/verifsim/core"
	"filippo.io/sunlight/internal/verifsim/corpus"
	"filippo.io/sunlight/internal/verifsim/dirgen"
	"filippo.io/sunlight/internal/verifsim/ref"
	"filippo.io/sunlight/internal/witness"
	"golang.org/x/mod/sumdb/tlog"
)

type Profile struct {
	Prop    string  `json:"prop"`
	Tag     string  `json:"tag"`
	Sizes   []int64 `json:"sizes"`
	Witness bool    `json:"witness"`
	Mirror  bool    `json:"mirror"`
	PathPrefix bool `json:"path_prefix"`
	Reqs    int     `json:"reqs"`
	Mutation string `json:"mutation,omitempty"`
	Cases   int     `json:"cases,omitempty"`
}

var rsBoundary = []int64{1, 2, 5, 255, 256, 257, 300, 511, 513, 700}

func MakeProfile(prop string, seed uint64, tier string) *Profile {
	r := core.NewRand(core.Mix(seed, 0x5ead))
	p := &Profile{Prop: prop}
	n := 1 + r.Intn(3)
	set := map[int64]bool{}
	for i := 0; i < n; i++ {
		set[rsBoundary[r.Intn(len(rsBoundary))]] = true
	}
	for s := range set {
		p.Sizes = append(p.Sizes, s)
	}
	sort.Slice(p.Sizes, func(i, j int) bool { return p.Sizes[i] < p.Sizes[j] })
	p.Witness = r.Chance(1, 2)
	p.Mirror = p.Witness && r.Chance(2, 3)
	p.PathPrefix = r.Chance(1, 2)
	p.Reqs = 60 + r.Intn(80)
	p.Tag = "log"
	if p.Witness {
		p.Tag = "log+witness"
	}
	if p.Mirror {
		p.Tag = "log+witness+mirror"
	}
	if prop == "C20" {
		p.Cases = 6 + r.Intn(10)
		p.Witness, p.Mirror = true, true
		p.Tag = "health"
		if r.Chance(1, 6) {
			p.Tag = "health+binary"
		}
	}
	return p
}

func (p *Profile) JSON() json.RawMessage { b, _ := json.Marshal(p); return b }
func ProfileFromJSON(b []byte) (*Profile, error) {
	p := &Profile{}
	return p, json.Unmarshal(b, p)
}

var lastTrace []core.Cmd

type rsWorld struct {
	sim  *core.Sim
	prof *Profile
	tmp  string
}

func (w *rsWorld) v(class, format string, a ...any) { w.sim.Violate(w.prof.Prop, class, format, a...) }

func rsTmpRoot() string {
	if d := os.Getenv("VERIF_TMP"); d != "" {
		return d
	}
	if fi, err := os.Stat("/dev/shm"); err == nil && fi.IsDir() {
		return "/dev/shm"
	}
	return os.TempDir()
}

func Run(t *testing.T, seed uint64, prof *Profile, replay []core.Cmd, keepLog bool) *core.RunResult {
	start := time.Now()
	sim := core.NewSim(seed)
	sim.KeepLog(keepLog)
	tmp, err := os.MkdirTemp(rsTmpRoot(), "readsim-")
	if err != nil {
		return &core.RunResult{Seed: seed, Infra: err.Error()}
	}
	defer func() {
		exec.Command("chattr", "-R", "-i", tmp).Run()
		os.RemoveAll(tmp)
	}()
	w := &rsWorld{sim: sim, prof: prof, tmp: tmp}
	corpus.Get()
	var infra string
	func() {
		defer func() {
			if r := recover(); r != nil {
				s := fmt.Sprint(r)
				if strings.Contains(s, "deadlock: main bubble goroutine has exited") {
					return
				}
				infra = "panic: " + s
			}
		}()
		switch {
		case prof.Prop == "C19":
			ctlog.VerifSetClock(func() int64 { return time.Now().UnixMilli() })
			if e := w.runServe(); e != "" {
				infra = e
			}
		case prof.Tag == "health+binary":
			ctlog.VerifSetClock(func() int64 { return time.Now().UnixMilli() })
			if e := w.runHealthBinary(); e != "" {
				infra = e
			}
		default:
			synctest.Test(t, func(t *testing.T) {
				defer func() {
					if r := recover(); r != nil {
						infra = "panic in bubble: " + fmt.Sprint(r)
					}
				}()
				ctlog.VerifSetClock(func() int64 { return time.Now().UnixMilli() })
				w.runHealth()
			})
		}
	}()
	pj := prof.JSON()
	lastTrace = []core.Cmd{{A: "case", S: prof.Tag}}
	res := &core.RunResult{Seed: seed, Profile: pj, ProfileTag: prof.Tag, Steps: int(sim.Probes["requests"] + sim.Probes["cases"]),
		LogHash: sim.LogHash(), SchedHash: core.SchedHash([]core.Cmd{{A: "p", S: string(pj)}}), Faults: map[string]int64{},
		Probes: sim.Probes, Violations: sim.Viol, Infra: infra, WallMicros: time.Since(start).Microseconds()}
	res.Nontrivial = sim.Probes["requests.hostile"] > 0 || sim.Probes["cases.broken"] > 0
	if keepLog {
		res.Sample = sim.Log()
	}
	return res
}

// ---------------------------------------------------------------------------
// the binary

var skylightBinary = os.Getenv("VERIF_SKYLIGHT_BINARY")

type server struct {
	cmd    *exec.Cmd
	addr   string
	out    *bytes.Buffer
	exited chan struct{}
}

func freePort() string {
	l, err := net.Listen("tcp", "127.0.0.1:0")
	if err != nil {
		panic(err)
	}
	defer l.Close()
	return l.Addr().String()
}

func startSkylight(tmp, yaml string) (*server, error) {
	if skylightBinary == "" {
		return nil, errors.New("VERIF_SKYLIGHT_BINARY not set")
	}
	var last string
	// another worker may grab the port between freePort and the child's
	// listen: the child then exits, which is detected, and a new port is tried
	for attempt := 0; attempt < 8; attempt++ {
		addr := freePort()
		cfg := filepath.Join(tmp, "skylight.yaml")
		os.WriteFile(cfg, []byte(fmt.Sprintf("listen:\n  - %q\n", addr)+yaml), 0o644)
		s := &server{addr: addr, out: &bytes.Buffer{}, exited: make(chan struct{})}
		s.cmd = exec.Command(skylightBinary, "-c", cfg)
		s.cmd.Dir = tmp
		s.cmd.Stdout = io.Discard
		s.cmd.Stderr = s.out
		if err := s.cmd.Start(); err != nil {
			return nil, err
		}
		go func() { s.cmd.Wait(); close(s.exited) }()
		deadline := time.Now().Add(90 * time.Second)
		up := false
		for time.Now().Before(deadline) && !up {
			select {
			case <-s.exited:
				deadline = time.Now()
				continue
			default:
			}
			// up means: the listening socket on addr belongs to OUR child (another
			// worker's server may have taken the port meanwhile and would answer a
			// plain connection attempt just as well)
			if ownsListener(s.cmd.Process.Pid, addr) {
				up = true
				break
			}
			time.Sleep(50 * time.Millisecond)
		}
		if up {
			return s, nil
		}
		s.stop()
		last = clipS(s.out.String())
	}
	return nil, fmt.Errorf("skylight did not come up: %s", last)
}

// ownsListener reports whether process pid holds the socket listening on addr
// (/proc/net/tcp gives the socket inode, /proc/<pid>/fd the process's sockets).
func ownsListener(pid int, addr string) bool {
	_, portS, err := net.SplitHostPort(addr)
	if err != nil {
		return false
	}
	port, _ := strconv.Atoi(portS)
	b, err := os.ReadFile("/proc/net/tcp")
	if err != nil {
		return false
	}
	want := fmt.Sprintf("0100007F:%04X", port)
	inode := ""
	for _, line := range strings.Split(string(b), "\n")[1:] {
		f := strings.Fields(line)
		if len(f) > 9 && f[1] == want && f[3] == "0A" {
			inode = f[9]
		}
	}
	if inode == "" {
		return false
	}
	fds, err := os.ReadDir(fmt.Sprintf("/proc/%d/fd", pid))
	if err != nil {
		return false
	}
	for _, fd := range fds {
		if l, err := os.Readlink(fmt.Sprintf("/proc/%d/fd/%s", pid, fd.Name())); err == nil && l == "socket:["+inode+"]" {
			return true
		}
	}
	return false
}

func (s *server) stop() {
	if s.cmd.Process != nil {
		s.cmd.Process.Kill()
		<-s.exited
	}
}

func clipS(s string) string {
	if len(s) > 400 {
		return s[len(s)-400:]
	}
	return s
}

func (s *server) client() *http.Client {
	return &http.Client{
		Transport: &http.Transport{
			DisableCompression: true,
			DialContext: func(ctx context.Context, network, _ string) (net.Conn, error) {
				return (&net.Dialer{}).DialContext(ctx, "tcp", s.addr)
			},
		},
		CheckRedirect: func(*http.Request, []*http.Request) error { return http.ErrUseLastResponse },
		Timeout:       30 * time.Second,
	}
}

// ---------------------------------------------------------------------------
// C19

type served struct {
	host   string // Host header
	prefix string // URL path prefix ("" or "/a/b")
	dir    string // directory it maps to
	kind   string // log | witness
}

func (w *rsWorld) runServe() string {
	p := w.prof
	seed := w.sim.Seed
	r := core.NewRand(core.Mix(seed, 0x1919))
	logDir := filepath.Join(w.tmp, "log1")
	ld, err := dirgen.BuildLog(logDir, filepath.Join(w.tmp, "cache1.db"), "readsim.example/log1", "readsim log1", p.Sizes, seed)
	if err != nil {
		return "BuildLog: " + err.Error()
	}
	ld.Log.CloseCache()
	os.WriteFile(filepath.Join(logDir, "log.v3.json"), ld.LogJSON(corpus.Epoch.AddDate(100, 0, 0), false), 0o644)
	// traps: a secret outside the directory, a dot-file and a stray file inside
	os.WriteFile(filepath.Join(w.tmp, "secret.txt"), []byte("TOP SECRET outside the served directory"), 0o644)
	os.WriteFile(filepath.Join(logDir, ".hidden"), []byte("dotfile inside"), 0o644)
	os.WriteFile(filepath.Join(logDir, "tile", "stray.txt"), []byte("stray"), 0o644)
	os.MkdirAll(filepath.Join(logDir, "tile", "0", "emptydir"), 0o755)
	os.Symlink(filepath.Join(w.tmp, "secret.txt"), filepath.Join(logDir, "tile", "link"))
	// a directory reached through a symbolic link inside the log directory
	os.Symlink("0", filepath.Join(logDir, "tile", "dirlink"))
	os.Symlink("tile", filepath.Join(logDir, "tilelink"))

	var sv []served
	lp := ""
	if p.PathPrefix {
		lp = "/logs/one"
	}
	sv = append(sv, served{host: "logs.sim.test", prefix: lp, dir: logDir, kind: "log"})
	yaml := fmt.Sprintf("logs:\n  - shortname: log1\n    monitoringprefix: https://logs.sim.test%s\n    localdirectory: %s\n", lp, logDir)
	var wd *dirgen.WitnessDir
	if p.Witness {
		wdir := filepath.Join(w.tmp, "wit")
		src := []*dirgen.SrcLog{dirgen.NewSrcLog("src.example/a", 300, seed), dirgen.NewSrcLog("src.example/b", 20, seed)}
		wd, err = dirgen.BuildWitness(wdir, w.tmp, src, []int64{int64(1 + r.Intn(300)), int64(r.Intn(21))}, p.Mirror, nil)
		if err != nil {
			return "BuildWitness: " + err.Error()
		}
		wp := "/w"
		if !p.PathPrefix {
			wp = ""
		}
		sv = append(sv, served{host: "wit.sim.test", prefix: wp, dir: wdir, kind: "witness"})
		yaml += fmt.Sprintf("witnesses:\n  - monitoringprefix: https://wit.sim.test%s\n    localdirectory: %s\n", wp, wdir)
	}
	srv, err := startSkylight(w.tmp, yaml)
	if err != nil {
		return err.Error()
	}
	defer srv.stop()
	hc := srv.client()

	// 1. every layout path of the log
	var reqs []string
	reqs = append(reqs, "/checkpoint", "/log.v3.json")
	for _, c := range ref.RequiredTiles(ld.Size, true) {
		reqs = append(reqs, "/"+c.Path())
	}
	seen := map[[32]byte]bool{}
	for _, e := range ld.Entries {
		for _, iss := range e.Issuers {
			fp := sha256.Sum256(iss)
			if !seen[fp] {
				seen[fp] = true
				reqs = append(reqs, fmt.Sprintf("/issuer/%x", fp))
			}
		}
	}
	for _, u := range reqs {
		w.request(hc, sv[0], u, true)
	}
	// 2. hostile and odd paths
	hostile := []string{
		"/../secret.txt", "/tile/../../secret.txt", "/tile/%2e%2e/%2e%2e/secret.txt", "/tile/..%2f..%2fsecret.txt", "/%2e%2e/secret.txt",
		"/tile/link", "/tile/stray.txt", "/.hidden", "/tile/", "/tile", "/tile/0/", "/tile/0/emptydir", "/tile/0/emptydir/", "/issuer/", "/issuer/../checkpoint",
		"/checkpoint/", "/checkpoint/x", "//checkpoint", "/./checkpoint", "/tile/0/000/../000", "/staging/", "/_roots.pem", "/log.v3.json/",
		"/tile/0/000%00", "/tile/0/x000/000", "/tile/8/0/000", "/tile/data/000.p/0", "/tile/0/000.p/256", "/tile/0/000.p/abc", "/issuer/..%2fcheckpoint", "/index.html", "/tile/names/../data/000",
		"/tile/dirlink/", "/tile/dirlink", "/tilelink/", "/tilelink/0/", "/tile/dirlink/000",
	}
	for i := 0; i < p.Reqs-len(hostile) && i < 60; i++ {
		base := reqs[r.Intn(len(reqs))]
		switch r.Intn(5) {
		case 0:
			hostile = append(hostile, base+"/")
		case 1:
			hostile = append(hostile, strings.Replace(base, "/", "//", 1))
		case 2:
			hostile = append(hostile, base+"/../"+path.Base(base))
		case 3:
			hostile = append(hostile, strings.ToUpper(base))
		case 4:
			hostile = append(hostile, base+"%2f..%2f..%2f..%2fsecret.txt")
		}
	}
	for _, u := range hostile {
		w.sim.Probe("requests.hostile")
		w.request(hc, sv[0], u, false)
	}
	// foreign host, other prefix
	w.request(hc, served{host: "other.sim.test", prefix: lp, dir: logDir, kind: "foreign"}, "/checkpoint", false)
	if lp != "" {
		w.request(hc, served{host: "logs.sim.test", prefix: "", dir: logDir, kind: "foreign"}, "/checkpoint", false)
	}
	// 3. witness and mirror layout
	if wd != nil {
		ws := sv[1]
		w.request(hc, ws, "/witness.v0.json", true)
		for _, g := range wd.Logs {
			oh := witness.OriginHash(g.Origin)
			if wd.Pending[g.Origin] > 0 {
				w.request(hc, ws, "/"+oh+"/checkpoint", true)
			}
			if n := wd.Mirror[g.Origin]; n > 0 {
				w.request(hc, ws, "/mirror/mirror.v0.json", true)
				w.request(hc, ws, "/mirror/"+oh+"/checkpoint", true)
				for _, c := range ref.RequiredTiles(n, false) {
					pth := c.Path()
					if c.Level == -1 {
						pth = strings.Replace(pth, "tile/data/", "tile/entries/", 1)
					}
					w.request(hc, ws, "/mirror/"+oh+"/"+pth, true)
				}
				// the same tiles while the mirror checkpoint is not there (an upload
				// in progress): headers are a function of the path, not of that file
				ck := filepath.Join(wd.Dir, "mirror", oh, "checkpoint")
				if b, err := os.ReadFile(ck); err == nil && n > 0 {
					os.Remove(ck)
					w.sim.Probe("mirror.no-checkpoint")
					for i, c := range ref.RequiredTiles(n, false) {
						if i%3 != 0 && c.Level != -1 {
							continue
						}
						pth := c.Path()
						if c.Level == -1 {
							pth = strings.Replace(pth, "tile/data/", "tile/entries/", 1)
						}
						w.request(hc, ws, "/mirror/"+oh+"/"+pth, true)
					}
					os.WriteFile(ck, b, 0o644)
				}
			}
			for _, u := range []string{"/" + oh + "/../witness.v0.json", "/" + oh + "/", "/mirror/" + oh + "/", "/mirror/../witness.v0.json", "/" + oh + "/%2e%2e/%2e%2e/secret.txt", "/mirror/" + oh + "/tile/"} {
				w.sim.Probe("requests.hostile")
				w.request(hc, ws, u, false)
			}
		}
	}
	// 4. an unmodified client verifies the whole log through the server
	base := "http://logs.sim.test" + lp + "/"
	cl, err := sunlight.NewClient(&sunlight.ClientConfig{MonitoringPrefix: base, PublicKey: ld.Cfg.Key.Public(),
		HTTPClient: &http.Client{Transport: &http.Transport{DialContext: func(ctx context.Context, network, _ string) (net.Conn, error) {
			return (&net.Dialer{}).DialContext(ctx, "tcp", srv.addr)
		}}, Timeout: 60 * time.Second},
		UserAgent: "verifsim readsim (verif@sim.test)"})
	if err != nil {
		return "NewClient: " + err.Error()
	}
	ctx, cancel := context.WithTimeout(context.Background(), 120*time.Second)
	defer cancel()
	ck, _, err := cl.Checkpoint(ctx)
	if err != nil {
		w.v("client-checkpoint", "an unmodified client cannot fetch the checkpoint through skylight: %v", err)
		return ""
	}
	if ck.N != ld.Size || ck.Hash != tlog.Hash(ld.Root) {
		w.v("client-checkpoint", "client read checkpoint %d/%x, directory has %d/%x", ck.N, ck.Hash[:4], ld.Size, ld.Root[:4])
	}
	n := int64(0)
	for i, e := range cl.AllEntries(ctx, ck.Tree, 0) {
		if i != n || !bytes.Equal(e.Certificate, ld.Entries[i].Certificate) || e.IsPrecert != ld.Entries[i].IsPrecert {
			w.v("client-entries", "client read a different entry at %d", i)
			break
		}
		n++
	}
	if err := cl.Err(); err != nil || n != ld.Size {
		w.v("client-entries", "an unmodified client verified %d of %d entries through skylight: %v", n, ld.Size, err)
	} else {
		w.sim.Probe("client.verified")
	}
	return ""
}

// request issues one GET and applies the serving oracle.
func (w *rsWorld) request(hc *http.Client, s served, upath string, layout bool) {
	w.sim.Probe("requests")
	raw := "http://" + s.host + s.prefix + upath
	req, err := http.NewRequest("GET", "http://placeholder/", nil)
	if err != nil {
		return
	}
	u, err := url.Parse(raw)
	if err != nil {
		// send it as an opaque request target
		req.URL = &url.URL{Scheme: "http", Host: s.host, Opaque: s.prefix + upath}
	} else {
		req.URL = u
	}
	req.Host = s.host
	req.Header.Set("User-Agent", "verifsim readsim (verif@sim.test)")
	resp, err := hc.Do(req)
	if err != nil {
		w.sim.Logf("GET %s -> error %v", raw, err)
		return
	}
	defer resp.Body.Close()
	body, _ := io.ReadAll(resp.Body)
	w.sim.Logf("GET %s -> %d (%d bytes)", raw, resp.StatusCode, len(body))
	w.sim.Probe(fmt.Sprintf("status.%d", resp.StatusCode/100*100))
	// which file does this request name? decode, clean, strip the prefix
	dec := s.prefix + upath
	if u != nil {
		dec = u.Path
	}
	clean := path.Clean("/" + dec)
	rel := ""
	inPrefix := false
	if s.kind != "foreign" && (clean == s.prefix || strings.HasPrefix(clean, s.prefix+"/")) && !strings.Contains(dec, "\x00") {
		rel = strings.TrimPrefix(clean, s.prefix)
		inPrefix = true
	}
	var want []byte
	wantOK := false
	if inPrefix && rel != "" && rel != "/" {
		fp := filepath.Join(s.dir, filepath.FromSlash(rel))
		if fi, err := os.Lstat(fp); err == nil && fi.Mode().IsRegular() && isInside(s.dir, fp) {
			if b, err := os.ReadFile(fp); err == nil {
				want, wantOK = b, true
			}
		}
	}
	if resp.StatusCode == 200 {
		if strings.Contains(string(body), "<pre>") && strings.Contains(string(body), "<a href=") {
			w.v("directory-listing", "GET %s returned a directory listing", raw)
			return
		}
		if !wantOK {
			w.v("served-non-file", "GET %s answered 200 with %d bytes, but names no regular file inside %s", raw, len(body), s.dir)
			return
		}
		if !bytes.Equal(body, want) {
			w.v("served-wrong-bytes", "GET %s answered 200 with other bytes than the file it names", raw)
			return
		}
		// layout and header rules are stated for the paths of the layout; a
		// non-canonical spelling that resolves to a file inside the directory is
		// only subject to the confinement rule above
		if canonical := s.prefix+upath == clean; canonical {
			if !routeAllowed(s.kind, rel) {
				w.v("served-outside-layout", "GET %s served %s, which is not part of the URL layout", raw, rel)
			}
			w.checkHeaders(raw, s.kind, rel, resp)
		} else {
			w.sim.Probe("served.noncanonical")
		}
		w.sim.Probe("served.ok")
		return
	}
	if layout {
		w.v("layout-not-served", "GET %s (a path of the layout whose file exists) answered %d", raw, resp.StatusCode)
	}
}

func isInside(dir, p string) bool {
	rp, err := filepath.EvalSymlinks(p)
	if err != nil {
		return false
	}
	rd, _ := filepath.EvalSymlinks(dir)
	return strings.HasPrefix(rp, rd+string(os.PathSeparator))
}

// routeAllowed: the URL layout of a log, or of a witness/mirror tree.
func routeAllowed(kind, rel string) bool {
	logRoute := func(r string) bool {
		return r == "/checkpoint" || r == "/log.v3.json" || strings.HasPrefix(r, "/issuer/") || strings.HasPrefix(r, "/tile/")
	}
	if kind == "log" {
		return logRoute(rel)
	}
	if rel == "/witness.v0.json" || rel == "/mirror/mirror.v0.json" {
		return true
	}
	parts := strings.SplitN(strings.TrimPrefix(rel, "/"), "/", 2)
	if len(parts) == 2 && parts[0] == "mirror" {
		parts = strings.SplitN(parts[1], "/", 2)
	}
	if len(parts) != 2 {
		return false
	}
	return logRoute("/" + parts[1])
}

func (w *rsWorld) checkHeaders(raw, kind, rel string, resp *http.Response) {
	h := resp.Header
	sub := rel
	if kind == "witness" {
		parts := strings.SplitN(strings.TrimPrefix(rel, "/"), "/", 2)
		if len(parts) == 2 && parts[0] == "mirror" && parts[1] != "mirror.v0.json" {
			parts = strings.SplitN(parts[1], "/", 2)
		}
		if len(parts) == 2 {
			sub = "/" + parts[1]
		}
	}
	bad := func(what string) {
		w.v("headers", "GET %s: %s (Content-Type %q, Content-Encoding %q, Cache-Control %q)", raw, what, h.Get("Content-Type"), h.Get("Content-Encoding"), h.Get("Cache-Control"))
	}
	immutable := strings.Contains(h.Get("Cache-Control"), "immutable")
	switch {
	case sub == "/checkpoint":
		if !strings.HasPrefix(h.Get("Content-Type"), "text/plain") || h.Get("Cache-Control") != "no-store" || h.Get("Content-Encoding") != "" {
			bad("checkpoint must be text/plain and no-store")
		}
	case strings.HasSuffix(sub, ".json"):
		if h.Get("Content-Type") != "application/json" || h.Get("Content-Encoding") != "" {
			bad("JSON metadata must be application/json")
		}
	case strings.HasPrefix(sub, "/issuer/"):
		if h.Get("Content-Type") != "application/pkix-cert" || !immutable || h.Get("Content-Encoding") != "" {
			bad("issuers must be application/pkix-cert and immutable")
		}
	case strings.HasPrefix(sub, "/tile/data/"), strings.HasPrefix(sub, "/tile/entries/"):
		if h.Get("Content-Encoding") != "gzip" || !immutable || h.Get("Content-Type") != "application/octet-stream" {
			bad("data tiles must be gzip-encoded octet-stream and immutable")
		}
	case strings.HasPrefix(sub, "/tile/names/"):
		if h.Get("Content-Encoding") != "gzip" || !immutable || !strings.HasPrefix(h.Get("Content-Type"), "application/jsonl") {
			bad("names tiles must be gzip-encoded jsonl and immutable")
		}
	case strings.HasPrefix(sub, "/tile/"):
		if h.Get("Content-Encoding") != "" || !immutable || h.Get("Content-Type") != "application/octet-stream" {
			bad("hash tiles must be plain octet-stream and immutable")
		}
	}
}

// ---------------------------------------------------------------------------
// C20, in-package on the fake clock

func (w *rsWorld) runHealth() {
	p := w.prof
	seed := w.sim.Seed
	r := core.NewRand(core.Mix(seed, 0x2020))
	logDir := filepath.Join(w.tmp, "hlog")
	ld, err := dirgen.BuildLog(logDir, filepath.Join(w.tmp, "hcache.db"), "health.example/log", "health log", p.Sizes, seed)
	if err != nil {
		panic("BuildLog: " + err.Error())
	}
	defer ld.Log.CloseCache()
	pristineCk, _ := os.ReadFile(filepath.Join(logDir, "checkpoint"))
	other, err := dirgen.BuildLog(filepath.Join(w.tmp, "olog"), filepath.Join(w.tmp, "ocache.db"), "health.example/log", "another health key", p.Sizes, seed)
	if err != nil {
		panic(err)
	}
	other.Log.CloseCache()
	otherCk, _ := os.ReadFile(filepath.Join(w.tmp, "olog", "checkpoint"))
	root, err := os.OpenRoot(logDir)
	if err != nil {
		panic(err)
	}
	defer root.Close()
	tsTime := time.UnixMilli(ld.Timestamp)
	week := 7 * 24 * time.Hour
	cases := []string{"ok", "stale", "fresh-4.9", "fresh-5.0", "stale-5.1", "resigned", "renamed", "truncated", "missing-checkpoint", "missing-json",
		"bad-key", "origin-line", "sunset-ok", "sunset-root", "sunset-size", "sunset-ts", "sunset-no-final", "sunset-boundary", "extension", "garbage-json"}
	for i := 0; i < p.Cases; i++ {
		c := cases[r.Intn(len(cases))]
		w.sim.Probe("cases")
		// reset
		os.WriteFile(filepath.Join(logDir, "checkpoint"), pristineCk, 0o644)
		limit := tsTime.Add(24 * time.Hour)
		final := false
		lj := func() []byte { return ld.LogJSON(limit, final) }
		want := "ok"
		age := time.Duration(r.Intn(4000)) * time.Millisecond
		// the fake clock only moves forward: every case is evaluated at now = now0 + something
		now := time.Now()
		base := now.Sub(tsTime)
		if base > 4*time.Second {
			// too much fake time has passed for freshness cases: re-sign a fresh checkpoint
			b, err := ctlog.VerifSignTreeHead(ld.Cfg, ld.Size, ld.Root, now.UnixMilli())
			if err != nil {
				panic(err)
			}
			pristineCk = b
			os.WriteFile(filepath.Join(logDir, "checkpoint"), pristineCk, 0o644)
			tsTime = time.UnixMilli(now.UnixMilli())
			ld.Timestamp = now.UnixMilli()
			base = now.Sub(tsTime)
		}
		sleepUntilAge := func(a time.Duration) {
			d := a - time.Since(tsTime)
			if d > 0 {
				time.Sleep(d)
			}
		}
		jsonBytes := []byte(nil)
		switch c {
		case "ok":
			sleepUntilAge(age)
		case "stale":
			sleepUntilAge(5*time.Second + time.Duration(1+r.Intn(100000))*time.Millisecond)
			want = "err"
		case "fresh-4.9":
			sleepUntilAge(4900 * time.Millisecond)
		case "fresh-5.0":
			sleepUntilAge(5000 * time.Millisecond)
		case "stale-5.1":
			sleepUntilAge(5100 * time.Millisecond)
			want = "err"
		case "resigned":
			os.WriteFile(filepath.Join(logDir, "checkpoint"), otherCk, 0o644)
			want = "err"
		case "renamed":
			j := map[string]any{}
			json.Unmarshal(lj(), &j)
			j["description"] = "health.example/renamed"
			jsonBytes, _ = json.Marshal(j)
			want = "err"
		case "truncated":
			// the order of the signature lines (and the ML-DSA bytes) is random per
			// signing: a cut that happens to fall on a line boundary after the
			// log's own signature leaves a valid checkpoint with fewer cosignatures
			cut := pristineCk[:1+r.Intn(len(pristineCk)-1)]
			os.WriteFile(filepath.Join(logDir, "checkpoint"), cut, 0o644)
			want = "err"
			if _, err := ref.VerifyLogCheckpoint(cut, ld.Cfg.Name, &ld.Cfg.Key.PublicKey); err == nil {
				want = "ok"
				w.sim.Probe("truncated.still-valid")
			}
		case "missing-checkpoint":
			os.Remove(filepath.Join(logDir, "checkpoint"))
			want = "err"
		case "missing-json":
			want = "err"
		case "garbage-json":
			jsonBytes = []byte("{not json")
			want = "err"
		case "bad-key":
			j := map[string]any{}
			json.Unmarshal(lj(), &j)
			j["key"] = []byte("not a key")
			jsonBytes, _ = json.Marshal(j)
			want = "err"
		case "origin-line":
			// the checkpoint's origin line names another log; the signature lines
			// (which the RFC 6962 signature does not bind to the origin) are intact
			os.WriteFile(filepath.Join(logDir, "checkpoint"), bytes.Replace(pristineCk, []byte("health.example/log\n"), []byte("health.example/other\n"), 1), 0o644)
			want = "err"
		case "extension":
			// a checkpoint with an extension line, validly signed? cannot be produced with the log key here; use garbage trailing note text
			os.WriteFile(filepath.Join(logDir, "checkpoint"), bytes.Replace(pristineCk, []byte("\n\n"), []byte("\nextra\n\n"), 1), 0o644)
			want = "err"
		case "sunset-ok", "sunset-root", "sunset-size", "sunset-ts", "sunset-no-final", "sunset-boundary":
			// the read-only date is one week after the limit (+3s grace)
			limit = time.Now().Add(-week - 10*time.Second).Truncate(time.Second)
			final = true
			want = "sunset"
			j := map[string]any{}
			if c == "sunset-boundary" {
				limit = time.Now().Add(-week).Truncate(time.Second) // within the grace: still a live log
				want = "ok"
				if time.Since(tsTime) > 5*time.Second {
					want = "err"
				}
			}
			json.Unmarshal(lj(), &j)
			ft, _ := j["final_tree_head"].(map[string]any)
			switch c {
			case "sunset-root":
				h := ld.Root
				h[3] ^= 1
				ft["sha256_root_hash"] = h[:]
				want = "err"
			case "sunset-size":
				ft["tree_size"] = ld.Size + 1
				want = "err"
			case "sunset-ts":
				ft["timestamp"] = ld.Timestamp + 1
				want = "err"
			case "sunset-no-final":
				delete(j, "final_tree_head")
				want = "err"
			}
			jsonBytes, _ = json.Marshal(j)
		}
		if c == "missing-json" {
			os.Remove(filepath.Join(logDir, "log.v3.json"))
		} else {
			if jsonBytes == nil {
				jsonBytes = lj()
			}
			os.WriteFile(filepath.Join(logDir, "log.v3.json"), jsonBytes, 0o644)
		}
		if want != "ok" {
			w.sim.Probe("cases.broken")
		}
		err := checkLog(root)
		got := "ok"
		if errors.Is(err, errLogSunset) {
			got = "sunset"
		} else if err != nil {
			got = "err"
		}
		w.sim.Logf("case %s age=%v -> %s (%v)", c, time.Since(tsTime), got, err)
		if got != want {
			w.v("checklog", "log state %q (checkpoint age %v): checkLog says %s (%v), the health predicate says %s", c, time.Since(tsTime), got, err, want)
		} else {
			w.sim.Probe("case." + c)
		}
	}
	w.runWitnessHealth(r)
}

func (w *rsWorld) runWitnessHealth(r *core.Rand) {
	seed := w.sim.Seed
	wdir := filepath.Join(w.tmp, "hwit")
	src := []*dirgen.SrcLog{dirgen.NewSrcLog("hsrc.example/a", 600, seed)}
	n1 := int64(2 + r.Intn(500))
	wd, err := dirgen.BuildWitness(wdir, w.tmp, src, []int64{n1}, true, nil)
	if err != nil {
		panic("BuildWitness: " + err.Error())
	}
	oh := witness.OriginHash(src[0].Origin)
	// an older pending checkpoint (smaller than the mirror checkpoint), cosigned by the same witness
	odir := filepath.Join(w.tmp, "hwit-old")
	var olderPending []byte
	if n1 > 2 {
		if _, err := dirgen.BuildWitness(odir, w.tmp, src, []int64{n1 - 1}, false, nil); err == nil {
			olderPending, _ = os.ReadFile(filepath.Join(odir, oh, "checkpoint"))
		}
	}
	_ = wd
	snap := snapshotDir(wdir)
	cases := []string{"ok", "wrong-hash-dir", "unknown-key", "no-keys", "mirror-ahead", "edge-missing", "edge-corrupt", "pending-missing", "mirror-json-missing", "witness-checkpoint-garbage"}
	for i := 0; i < 6; i++ {
		c := cases[r.Intn(len(cases))]
		w.sim.Probe("cases")
		restoreDir(wdir, snap)
		wantW, wantM := true, true // healthy?
		switch c {
		case "wrong-hash-dir":
			other := strings.Repeat("ab", 32)
			os.Rename(filepath.Join(wdir, oh), filepath.Join(wdir, other))
			wantW = false
			wantM = false // pending checkpoint is gone from its place
		case "unknown-key":
			os.WriteFile(filepath.Join(wdir, "witness.v0.json"), []byte(`{"verifier_keys":["other.example/w+d9b2a7c3+AcD0Y+kCuMbdz4SQ0XH34CNnb7qLr3xJpZt0Gt4cEjm6"]}`), 0o644)
			wantW, wantM = false, false
		case "no-keys":
			os.WriteFile(filepath.Join(wdir, "witness.v0.json"), []byte(`{"verifier_keys":[]}`), 0o644)
			wantW, wantM = false, false
		case "mirror-ahead":
			if olderPending == nil {
				continue
			}
			os.WriteFile(filepath.Join(wdir, oh, "checkpoint"), olderPending, 0o644)
			wantM = false
		case "edge-missing", "edge-corrupt":
			// the tiles that hold the right-edge hashes: one per complete subtree in
			// the decomposition of n (what a verifying reader needs for the root)
			var hashTiles []ref.TileCoord
			have := map[ref.TileCoord]bool{}
			for k, rem, start := 62, n1, int64(0); k >= 0; k-- {
				if rem>>uint(k)&1 == 0 {
					continue
				}
				i := start >> uint(k) // index of the subtree root at level k
				L := k / 8
				j := uint(k % 8)
				N := (i << j) >> 8
				wd := (n1 >> uint(8*L)) - N*256
				if wd > 256 {
					wd = 256
				}
				tc := ref.TileCoord{Level: L, N: N, W: int(wd)}
				if !have[tc] {
					have[tc] = true
					hashTiles = append(hashTiles, tc)
				}
				start += int64(1) << uint(k)
			}
			if len(hashTiles) == 0 {
				continue
			}
			t := hashTiles[r.Intn(len(hashTiles))]
			fp := filepath.Join(wdir, "mirror", oh, filepath.FromSlash(t.Path()))
			exec.Command("chattr", "-i", fp).Run()
			if c == "edge-missing" {
				os.Remove(fp)
			} else {
				b, _ := os.ReadFile(fp)
				if len(b) == 0 {
					continue
				}
				b[r.Intn(len(b))] ^= 4
				os.Remove(fp)
				os.WriteFile(fp, b, 0o644)
			}
			wantM = false
		case "pending-missing":
			os.Remove(filepath.Join(wdir, oh, "checkpoint"))
			wantW = false // the witness tree has a hash directory without checkpoint
			wantM = false
		case "mirror-json-missing":
			os.Remove(filepath.Join(wdir, "mirror", "mirror.v0.json"))
			wantM = false
		case "witness-checkpoint-garbage":
			os.WriteFile(filepath.Join(wdir, oh, "checkpoint"), []byte("garbage\n"), 0o644)
			wantW, wantM = false, false
		}
		if !wantW || !wantM {
			w.sim.Probe("cases.broken")
		}
		gotW := w.witnessHealthy(wdir, false)
		gotM := w.witnessHealthy(wdir, true)
		w.sim.Logf("witness case %s -> witness=%v mirror=%v", c, gotW, gotM)
		if gotW != wantW {
			w.v("witness-health", "witness state %q: health says healthy=%v, predicate says %v", c, gotW, wantW)
		}
		if gotM != wantM {
			w.v("mirror-health", "mirror state %q: health says healthy=%v, predicate says %v", c, gotM, wantM)
		}
		if gotW == wantW && gotM == wantM {
			w.sim.Probe("wcase." + c)
		}
	}
}

// witnessHealthy runs the same sequence /health runs for one witness tree.
func (w *rsWorld) witnessHealthy(wdir string, mirror bool) bool {
	root, err := os.OpenRoot(wdir)
	if err != nil {
		return false
	}
	defer root.Close()
	wh := witnessHealth{root: root}
	if mirror {
		mr, err := root.OpenRoot("mirror")
		if err != nil {
			return false
		}
		defer mr.Close()
		wh = witnessHealth{root: mr, pendingRoot: root, mirror: true}
	}
	if err := wh.loadVerifiers(); err != nil {
		return false
	}
	hashes, err := wh.hashes()
	if err != nil {
		return false
	}
	for _, h := range hashes {
		if _, err := wh.check(context.Background(), h); err != nil {
			return false
		}
	}
	return true
}

type dirSnap map[string][]byte

func snapshotDir(dir string) dirSnap {
	m := dirSnap{}
	filepath.WalkDir(dir, func(p string, d fs.DirEntry, err error) error {
		if err == nil && !d.IsDir() {
			rel, _ := filepath.Rel(dir, p)
			m[rel], _ = os.ReadFile(p)
		}
		return nil
	})
	return m
}

func restoreDir(dir string, m dirSnap) {
	exec.Command("chattr", "-R", "-i", dir).Run()
	os.RemoveAll(dir)
	for rel, b := range m {
		p := filepath.Join(dir, rel)
		os.MkdirAll(filepath.Dir(p), 0o755)
		os.WriteFile(p, b, 0o644)
	}
}

// ---------------------------------------------------------------------------
// C20, aggregation through the built binary (/health)

func (w *rsWorld) runHealthBinary() string {
	seed := w.sim.Seed
	r := core.NewRand(core.Mix(seed, 0x4ea1))
	type lg struct {
		name    string
		staging bool
		healthy bool
		dir     string
	}
	var logs []lg
	logs2 := func(l []lg) []hbLog {
		var out []hbLog
		for _, x := range l {
			out = append(out, hbLog{x.name, x.staging, x.healthy})
		}
		return out
	}
	yaml := "logs:\n"
	week := 7 * 24 * time.Hour
	for i := 0; i < 2+r.Intn(3); i++ {
		name := fmt.Sprintf("hb%d", i)
		dir := filepath.Join(w.tmp, name)
		ld, err := dirgen.BuildLog(dir, filepath.Join(w.tmp, name+".db"), "hb.example/"+name, "hb key "+name, []int64{int64(1 + r.Intn(300))}, seed+uint64(i))
		if err != nil {
			return "BuildLog: " + err.Error()
		}
		ld.Log.CloseCache()
		l := lg{name: name, staging: r.Chance(1, 3), healthy: r.Chance(1, 2), dir: dir}
		// healthy logs are read-only logs with a matching final tree (no dependence on wall-clock freshness)
		limit := time.Now().Add(-week - time.Hour)
		if l.healthy {
			os.WriteFile(filepath.Join(dir, "log.v3.json"), ld.LogJSON(limit, true), 0o644)
		} else {
			switch r.Intn(3) {
			case 0:
				j := map[string]any{}
				json.Unmarshal(ld.LogJSON(limit, true), &j)
				j["final_tree_head"].(map[string]any)["tree_size"] = ld.Size + 7
				b, _ := json.Marshal(j)
				os.WriteFile(filepath.Join(dir, "log.v3.json"), b, 0o644)
			case 1:
				// a live log whose checkpoint is an hour old
				b, _ := ctlog.VerifSignTreeHead(ld.Cfg, ld.Size, ld.Root, time.Now().Add(-time.Hour).UnixMilli())
				os.WriteFile(filepath.Join(dir, "checkpoint"), b, 0o644)
				os.WriteFile(filepath.Join(dir, "log.v3.json"), ld.LogJSON(time.Now().Add(24*time.Hour), false), 0o644)
			case 2:
				os.WriteFile(filepath.Join(dir, "log.v3.json"), ld.LogJSON(limit, true), 0o644)
				os.WriteFile(filepath.Join(dir, "checkpoint"), []byte("garbage"), 0o644)
			}
		}
		logs = append(logs, l)
		yaml += fmt.Sprintf("  - shortname: %s\n    monitoringprefix: https://%s.sim.test\n    localdirectory: %s\n    staging: %v\n", name, name, dir, l.staging)
		w.sim.Probe("cases")
		if !l.healthy {
			w.sim.Probe("cases.broken")
		}
	}
	// half of the runs also serve a witness with a mirror
	wdir := ""
	witOK, mirOK := true, true
	var wsnap dirSnap
	if r.Chance(1, 2) {
		wdir = filepath.Join(w.tmp, "hbwit")
		src := []*dirgen.SrcLog{dirgen.NewSrcLog("hbsrc.example/a", 600, seed)}
		if _, err := dirgen.BuildWitness(wdir, w.tmp, src, []int64{int64(2 + r.Intn(500))}, true, nil); err != nil {
			return "BuildWitness: " + err.Error()
		}
		wsnap = snapshotDir(wdir)
		yaml += fmt.Sprintf("witnesses:\n  - monitoringprefix: https://hbwit.sim.test\n    localdirectory: %s\n", wdir)
	}
	srv, err := startSkylight(w.tmp, yaml)
	if err != nil {
		return err.Error()
	}
	defer srv.stop()
	// the state changes under the running server: several requests to one process
	for round := 0; round < 4; round++ {
		if round > 0 {
			var muts []string
			if wdir != "" {
				muts = append(muts, "wit-key-rotate", "mir-json-missing", "wit-restore")
			}
			for i := range logs {
				if logs[i].healthy {
					muts = append(muts, fmt.Sprintf("log-garbage-%d", i))
				}
			}
			if len(muts) == 0 {
				break
			}
			m := muts[r.Intn(len(muts))]
			w.sim.Probe("health.live-change")
			switch {
			case m == "wit-key-rotate":
				os.WriteFile(filepath.Join(wdir, "witness.v0.json"), []byte(`{"verifier_keys":["other.example/w+d9b2a7c3+AcD0Y+kCuMbdz4SQ0XH34CNnb7qLr3xJpZt0Gt4cEjm6"]}`), 0o644)
				witOK, mirOK = false, false
			case m == "mir-json-missing":
				os.Remove(filepath.Join(wdir, "mirror", "mirror.v0.json"))
				mirOK = false
			case m == "wit-restore":
				// in place: the server holds the directory open
				for _, rel := range []string{"witness.v0.json", filepath.Join("mirror", "mirror.v0.json")} {
					os.WriteFile(filepath.Join(wdir, rel), wsnap[rel], 0o644)
				}
				witOK, mirOK = true, true
			default:
				var i int
				fmt.Sscanf(m, "log-garbage-%d", &i)
				os.WriteFile(filepath.Join(logs[i].dir, "checkpoint"), []byte("garbage"), 0o644)
				logs[i].healthy = false
			}
			w.sim.Logf("live change %s", m)
		}
		if msg := w.healthRound(srv, logs2(logs), witOK && mirOK); msg != "" {
			return msg
		}
	}
	return ""
}

type hbLog struct {
	name             string
	staging, healthy bool
}

func (w *rsWorld) healthRound(srv *server, logs []hbLog, witnessesOK bool) string {
	req, _ := http.NewRequest("GET", "http://any.sim.test/health", nil)
	req.Header.Set("User-Agent", "verifsim readsim (verif@sim.test)")
	resp, err := srv.client().Do(req)
	if err != nil {
		return "health request: " + err.Error()
	}
	defer resp.Body.Close()
	body, _ := io.ReadAll(resp.Body)
	wantBad := !witnessesOK
	for _, l := range logs {
		if !l.healthy && !l.staging {
			wantBad = true
		}
		line := ""
		for _, ln := range strings.Split(string(body), "\n") {
			if strings.HasPrefix(ln, l.name+":") {
				line = ln
			}
		}
		switch {
		case line == "":
			w.v("health-body", "/health does not mention log %s: %q", l.name, clipS(string(body)))
		case l.healthy && !(strings.HasSuffix(line, ": OK") || strings.HasSuffix(line, ": read-only")):
			w.v("health-body", "/health reports healthy log %s as %q", l.name, line)
		case !l.healthy && (strings.HasSuffix(line, ": OK") || strings.HasSuffix(line, ": read-only")):
			w.v("health-body", "/health reports broken log %s as %q", l.name, line)
		case !l.healthy && l.staging && !strings.HasSuffix(line, "(ignored)"):
			w.v("health-body", "/health does not mark broken staging log %s as ignored: %q", l.name, line)
		}
	}
	if wantBad != (resp.StatusCode != 200) {
		w.v("health-status", "/health answered %d although broken non-staging logs or witness/mirror = %v: %q", resp.StatusCode, wantBad, clipS(string(body)))
	} else {
		w.sim.Probe("health.aggregate.ok")
	}
	return ""
}
