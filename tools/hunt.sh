#!/bin/bash
# usage: tools/hunt.sh <engine> <prop> <count> [from] -- runs seeds with -allprops, keeps failing traces in /tmp/vt/hunt-<prop>
engine=$1; prop=$2; count=${3:-200}; from=${4:-0}
d=/tmp/vt/hunt-$prop; mkdir -p $d; rm -f $d/*
for w in 0 1 2 3; do
  GOMAXPROCS=2 /verif/.build/$engine.test -test.run '^TestWorker$' -test.timeout 0 -test.cpu 1 -prop $prop -seed ${VERIF_SEED:-1} -from $((from + w*count/4)) -count $((count/4)) -budget 600s -out $d/o$w.jsonl -faildir $d -allprops > $d/err$w.txt 2>&1 &
done
wait
python3 - $d <<'PY'
import json,sys,glob,collections
d=sys.argv[1]
c=collections.Counter(); ex={}
n=0
for f in glob.glob(d+'/o*.jsonl'):
    for l in open(f):
        r=json.loads(l); n+=1
        if r.get('infra'): c['INFRA']+=1; ex.setdefault('INFRA',(r['seed'],r['infra'][:300]))
        for v in r.get('violations') or []:
            k=v['property']+'/'+v['class']; c[k]+=1; ex.setdefault(k,(r['seed'],v['detail'][:300]))
print(n,'runs')
for k,v in c.most_common(): print(v,k,ex[k])
PY
