#!/usr/bin/env python3
"""Determinism self-test: the same run seeds at GOMAXPROCS 1/4/16, in separate
processes, several times, must give identical event-log hashes.

usage: tools/selftest_determinism.py [engine:prop ...] [--seeds N] [--reps R]
"""
import json, os, subprocess, sys, tempfile, shutil, collections

VERIF = os.path.dirname(os.path.dirname(os.path.abspath(__file__)))
BUILD = os.environ.get("VERIF_BUILD") or os.path.join(VERIF, ".build")
sys.path.insert(0, os.path.join(VERIF, "tools"))
from props import PROPS

ENV = dict(os.environ, AWS_ACCESS_KEY_ID="verif", AWS_SECRET_ACCESS_KEY="verif", AWS_EC2_METADATA_DISABLED="true",
           AWS_CONFIG_FILE="/dev/null", AWS_SHARED_CREDENTIALS_FILE="/dev/null",
           VERIF_GC_BINARY=os.path.join(BUILD, "partial-aftersun"), VERIF_SKYLIGHT_BINARY=os.path.join(BUILD, "skylight"))

def main():
    args = [a for a in sys.argv[1:] if not a.startswith("--") and not a.isdigit()]
    seeds = 12
    reps = 2
    for i, a in enumerate(sys.argv):
        if a == "--seeds": seeds = int(sys.argv[i + 1])
        if a == "--reps": reps = int(sys.argv[i + 1])
    targets = args or ["C01", "C03", "C06", "C07", "C08", "C09", "C17", "C05", "C13", "C14", "C15", "C16", "C12"]
    targets = [a for a in targets if not a.isdigit()]
    tmp = tempfile.mkdtemp(prefix="detsel-", dir="/dev/shm")
    bad = 0
    total = 0
    try:
        for prop in targets:
            eng = PROPS[prop]["engine"]
            binary = os.path.join(BUILD, eng + ".test")
            procs = []
            for gmp in ("1", "4", "16"):
                for rep in range(reps):
                    out = os.path.join(tmp, "%s-%s-%d.jsonl" % (prop, gmp, rep))
                    p = subprocess.Popen([binary, "-test.run", "^TestWorker$", "-test.timeout", "0", "-prop", prop, "-seed", "424242",
                                          "-from", "0", "-count", str(seeds), "-budget", "3000s", "-out", out],
                                         env=dict(ENV, GOMAXPROCS=gmp, VERIF_TMP=tmp), stdout=subprocess.DEVNULL, stderr=subprocess.DEVNULL)
                    procs.append((p, out, gmp, rep))
            hashes = collections.defaultdict(set)
            for p, out, gmp, rep in procs:
                p.wait()
                nth = collections.Counter()
                for line in open(out):
                    r = json.loads(line)
                    # a sweep (C03) emits many results under one seed: compare them position by position
                    k = (r["seed"], nth[r["seed"]])
                    nth[r["seed"]] += 1
                    hashes[k].add((r["log_hash"], r["sched_hash"], r["steps"]))
            nd = [s for s, h in hashes.items() if len(h) != 1]
            total += len(hashes)
            bad += len(nd)
            print("%s (%s): %d seeds x %d processes, %d nondeterministic %s" % (prop, eng, len(hashes), len(procs), len(nd), nd[:3]))
    finally:
        subprocess.run(["chattr", "-R", "-i", tmp], stderr=subprocess.DEVNULL)
        shutil.rmtree(tmp, ignore_errors=True)
    print("TOTAL seeds %d nondeterministic %d" % (total, bad))
    sys.exit(1 if bad else 0)

main()
