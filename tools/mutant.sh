#!/bin/bash
# usage: tools/mutant.sh <patchfile> <budget> <prop> [prop...]
# Applies a patch to a scratch copy of /repo and runs the quick checks against it.
set -u
patch=$(readlink -f "$1"); budget=$2; shift 2
name=$(basename "$patch" .diff)
M=/tmp/mrepo-$name-$$
rm -rf "$M"; mkdir -p "$M"
rsync -a --exclude .git /repo/ "$M/repo/"
( cd "$M/repo" && patch -p1 -s < "$patch" ) || { echo "patch failed"; rm -rf "$M"; exit 2; }
export VERIF_REPO="$M/repo" VERIF_BUILD="$M/build" VERIF_OUT="$M/out"
mkdir -p "$VERIF_BUILD" "$VERIF_OUT"
# reuse the patched crawshaw copy
mkdir -p "$VERIF_BUILD/depgen"; cp -a /verif/.build/depgen/crawshaw-sqlite "$VERIF_BUILD/depgen/" 2>/dev/null
rc=0
for p in "$@"; do
  out=$(/verif/check "$p" quick --budget "$budget" 2>&1)
  r=$?
  echo "== $name $p exit=$r"
  echo "$out" | grep -E "VIOLATION|KNOWN-FINDING|violation:|INFRA|BUILD FAILED|runs," | head -8
  if [ -n "${KEEP_REPLAY:-}" ] && [ $r = 1 ]; then mkdir -p /tmp/vt/replays; cp "$M"/out/replays/* /tmp/vt/replays/ 2>/dev/null; fi
done
chattr -R -i "$M" 2>/dev/null; rm -rf "$M"
