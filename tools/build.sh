#!/bin/bash
# Build one engine test binary from /repo's current working tree plus the
# overlay files under /verif/overlay. Usage: tools/build.sh <engine> [extra go flags]
# Engines: seq, lock, wit, client, fs, gc, read
set -euo pipefail
VERIF="$(cd "$(dirname "$0")/.." && pwd)"
REPO="${VERIF_REPO:-/repo}"
export GOFLAGS=-mod=mod GOPROXY=off GOSUMDB=off GOTOOLCHAIN=local CGO_ENABLED=1
GO=go1.26.8
B="${VERIF_BUILD:-$VERIF/.build}"
mkdir -p "$B"
engine="$1"; shift || true
python3 "$VERIF/tools/mkoverlay.py" "$REPO" "$VERIF" "$B" "$engine"
case "$engine" in
  seq|lock|wit|client|fs) pkg="filippo.io/sunlight/internal/verifsim/$engine" ;;
  gc) pkg="filippo.io/sunlight/cmd/partial-aftersun" ;;
  read) pkg="filippo.io/sunlight/cmd/skylight" ;;
  sun) pkg="filippo.io/sunlight/cmd/sunlight" ;;
  *) echo "unknown engine $engine" >&2; exit 2 ;;
esac
cd "$REPO"
case "$engine" in
  gc) $GO build -o "$B/partial-aftersun" ./cmd/partial-aftersun || exit 2 ;;
  seq) $GO build -o "$B/recompute-cache" ./cmd/recompute-cache || exit 2 ;;
  read) $GO build -o "$B/skylight" ./cmd/skylight || exit 2 ;;
esac
exec $GO test -c -tags verif -vet=off -modfile="$B/go.mod" -overlay="$B/overlay-$engine.json" -o "$B/$engine.test" "$@" "$pkg"
