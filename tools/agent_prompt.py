#!/usr/bin/env python3
"""Print the prompt for a mutation sub-agent: property text only, nothing from /verif."""
import json, sys
pid, wt = sys.argv[1], sys.argv[2]
n = int(sys.argv[3]) if len(sys.argv) > 3 else 3
# optional 4th argument: a file with one-line descriptions of changes already tried (a later round must differ)
tried = open(sys.argv[4]).read().strip() if len(sys.argv) > 4 else ""
for l in open('/verif/properties.jsonl'):
    p = json.loads(l)
    if p['id'] == pid:
        break
print(f"""You are helping test a verification effort for the Go project FiloSottile/sunlight (a Certificate Transparency log server). You have your own scratch git worktree of the repository at {wt} (work ONLY inside that directory; do not read or touch /repo, /verif or any other directory outside it except Go's module cache and /tmp/{pid.lower()}-out for your outputs).

Here is a semantic property that the code base is supposed to satisfy:

  Title: {p['title']}
  Statement: {p['statement']}
  Quantified over: {p['quantifier']['text']}
  Code anchors: {', '.join(p['anchors']['files'])}
  Mechanisms: {'; '.join(m['name'] + ' (' + m['where'] + ')' for m in p['anchors'].get('mechanism', []))}

Your task: produce {n} DIFFERENT, realistic code changes (bugs) to the non-test Go source in the worktree, each of which BREAKS this property, while the project still compiles and its existing test suite still passes. They should look like plausible mistakes or refactorings a developer could make (a reordered step, a dropped check, an off-by-one, a wrong variable, a missed error path, a too-eager optimisation), not sabotage that ordinary use would expose at once. Prefer changes that need something specific to manifest: a particular interleaving, a crash or storage/lock fault at a particular point, a multi-step sequence of operations, an unusual input or tree size, or two cooperating sites that each look fine alone. Each change should be small (a few lines), touch only non-test .go files, and the {n} changes should exercise different mechanisms of the property.

{("Changes that were ALREADY tried in an earlier round -- yours must be different in mechanism, site or trigger, not variations of these:" + chr(10) + tried + chr(10)) if tried else ""}
For EACH change k = 1..{n}:
 1. Start from a clean tree (git -C {wt} checkout -- . && git -C {wt} clean -fdq).
 2. Make the change. Save it as /tmp/{pid.lower()}-out/m<k>/patch.diff (output of `git -C {wt} diff`).
 3. Verify it compiles and the existing tests of the affected packages still pass, e.g.
      cd {wt} && GOFLAGS=-mod=mod GOPROXY=off GOSUMDB=off GOTOOLCHAIN=local go1.26.8 build ./... && GOFLAGS=-mod=mod GOPROXY=off GOSUMDB=off GOTOOLCHAIN=local go1.26.8 test -vet=off -count=1 ./internal/ctlog/ ./internal/witness/ . ./cmd/...
    (the sandbox has no network; always use exactly those environment variables and the go1.26.8 binary; the first build takes a minute or two). If an existing test fails with your change, pick a different change.
 4. Write a demonstration: a NEW Go test file (e.g. internal/ctlog/zz_demo_test.go, in the package's own test package or internal test package as you need) that FAILS with your change applied and PASSES on the clean tree, showing the property being violated (the specific schedule / fault / sequence / input needed). You may use the helpers that already exist in the package's *_test.go files (look at internal/ctlog/testlog_test.go, ctlog_test.go, export_test.go etc.). Save the demo file as /tmp/{pid.lower()}-out/m<k>/demo_test.go together with a line in notes saying where it must be placed, and confirm both outcomes yourself (fails with the patch, passes without).
 5. Write /tmp/{pid.lower()}-out/m<k>/notes.md: what the change is, why it breaks the property, what exactly is needed for it to manifest, and the exact commands you ran with their results.
Known quirks of this sandbox: TestSequenceLargeLog (internal/ctlog), TestCCADBRoots (cmd/sunlight, needs network) and TestScripts (cmd/skylight, slow start-up) may fail on the clean tree under load; skip them (e.g. -skip 'TestSequenceLargeLog|TestCCADBRoots|TestScripts') and only run the packages your change affects.
Finally restore the worktree to a clean state. The machine is slow and shared: avoid running the whole test suite more often than needed, and never run more than one go command at a time.

Report back a short summary: for each change one line with its path, a one-sentence description, and whether you confirmed (a) build ok, (b) existing tests pass, (c) demo fails with patch, (d) demo passes without.""")
