#!/usr/bin/env python3
"""C13 stub fidelity: run a fixed sequence of LocalBackend calls on the real file
system under strace and compare the sequence of system-call kinds with the one the
simulated os (simos) records for the same calls. Exit 0 if equal, 2 otherwise."""
import os, re, subprocess, sys, tempfile, shutil

VERIF = os.path.dirname(os.path.dirname(os.path.abspath(__file__)))
B = os.environ.get("VERIF_BUILD") or os.path.join(VERIF, ".build")
tmp = tempfile.mkdtemp(prefix="strace-fid-")
try:
    d = os.path.join(tmp, "store")
    os.mkdir(d)
    out = os.path.join(tmp, "trace.txt")
    r = subprocess.run(["strace", "-f", "-y", "-o", out, "-e", "trace=openat,fchmod,write,fsync,close,renameat,renameat2,newfstatat,statx,mkdirat,ioctl,unlinkat,read,pread64",
                        os.path.join(B, "seq.test"), "-test.run", "^TestRealUploadHelper$"], env=dict(os.environ, VERIF_REAL_UPLOAD_DIR=d),
                       stdout=subprocess.PIPE, stderr=subprocess.STDOUT, text=True)
    if r.returncode != 0:
        print("helper failed:", r.stdout[-500:]); sys.exit(2)
    real = []
    for line in open(out):
        if d not in line:
            continue
        m = re.match(r"^\d+\s+(\w+)\((.*)", line)
        if not m:
            continue
        sc, rest = m.group(1), m.group(2)
        if "= -1" in line and "ENOENT" in line and sc in ("newfstatat", "statx", "openat"):
            kind = {"newfstatat": "stat", "statx": "stat", "openat": "open"}[sc]
        elif sc in ("newfstatat", "statx"):
            # fstat on an open fd (os.ReadFile sizing, CreateTemp) is not a path operation of the model
            if rest.startswith("AT_FDCWD") or '"' in rest.split(",")[1]:
                kind = "stat"
            else:
                continue
        elif sc == "openat":
            kind = "createtemp" if "O_CREAT" in rest and "O_EXCL" in rest else "open"
        elif sc == "fchmod": kind = "chmod"
        elif sc in ("renameat", "renameat2"): kind = "rename"
        elif sc == "mkdirat": kind = "mkdir"
        elif sc == "unlinkat": kind = "unlink"
        elif sc in ("read", "pread64"): kind = "read"
        elif sc == "ioctl":
            if "FS_IOC_SETFLAGS" not in rest and "0x40086602" not in rest:
                continue
            kind = "ioctl"
        else: kind = sc
        real.append(kind)
    r2 = subprocess.run([os.path.join(B, "fs.test"), "-test.run", "^TestSimTrace$"], env=dict(os.environ, VERIF_SIM_TRACE="1"),
                        stdout=subprocess.PIPE, stderr=subprocess.STDOUT, text=True)
    sim = [l.split()[1] for l in r2.stdout.splitlines() if l.startswith("SIMOP ")]
    # reads: the kernel returns data in as many reads as the caller asks; compare modulo runs of reads
    def squash(seq):
        o = []
        for k in seq:
            if k == "read" and o and o[-1] == "read":
                continue
            o.append(k)
        return o
    a, b = squash(real), squash(sim)
    print("real:", " ".join(a))
    print("sim: ", " ".join(b))
    if a != b:
        print("FIDELITY MISMATCH between the real system-call sequence and simos")
        sys.exit(2)
    print("fidelity ok: %d operations" % len(a))
finally:
    subprocess.run(["chattr", "-R", "-i", tmp], stderr=subprocess.DEVNULL)
    shutil.rmtree(tmp, ignore_errors=True)
