#!/usr/bin/env python3
"""Generate the -modfile copy and the -overlay JSON used to compile the
verification harness into /repo's packages without writing into /repo.

usage: mkoverlay.py <repo> <verif> <builddir> <engine>
"""
import json, os, re, shutil, sys

repo, verif, bdir, engine = sys.argv[1:5]
ov = os.path.join(verif, "overlay")

# --- modfile copy -----------------------------------------------------------
gomod = open(os.path.join(repo, "go.mod")).read()
extra = "\nrequire github.com/anishathalye/porcupine v1.3.0\n"
if "anishathalye/porcupine" not in gomod:
    gomod += extra
# crawshaw.io/sqlite panics from a finalizer when a Conn is garbage collected
# unclosed. LoadLog leaks its cache connections on its error paths (harmless in
# production, where the process exits); in the simulator the "process" is an
# object, so in the harness build the finalizer closes the connection instead
# of panicking. Module-cache files cannot be overlaid, hence a patched copy of
# the module and a replace directive in the -modfile copy.
m = re.search(r'crawshaw\.io/sqlite (\S+)', gomod)
if m:
    modcache = os.environ.get("GOMODCACHE") or os.path.join(os.environ.get("GOPATH") or os.path.expanduser("~/go"), "pkg", "mod")
    srcdir = os.path.join(modcache, "crawshaw.io", "sqlite@" + m.group(1))
    dst = os.path.join(bdir, "depgen", "crawshaw-sqlite")
    if os.path.isdir(srcdir):
        if not os.path.exists(os.path.join(dst, ".done-" + m.group(1))):
            shutil.rmtree(dst, ignore_errors=True)
            shutil.copytree(srcdir, dst)
            os.system("chmod -R u+w '%s'" % dst)
            f = os.path.join(dst, "sqlite.go")
            code = open(f).read()
            pat = re.compile(r'panic\(file \+ ":" \+ string\(itoa\(buf\[:\], int64\(line\)\)\) \+ ": \*sqlite\.Conn for " \+ path \+ " garbage collected, call Close method"\)')
            if not pat.search(code):
                print("mkoverlay: crawshaw finalizer not found", file=sys.stderr)
                sys.exit(2)
            open(f, "w").write(pat.sub('_, _, _ = buf, file, line; conn.Close()', code))
            open(os.path.join(dst, ".done-" + m.group(1)), "w").write("ok")
        gomod += "\nreplace crawshaw.io/sqlite => %s\n" % dst
modpath = os.path.join(bdir, "go.mod")
old = open(modpath).read() if os.path.exists(modpath) else None
if old != gomod:
    open(modpath, "w").write(gomod)
sumsrc = open(os.path.join(repo, "go.sum")).read()
sumpath = os.path.join(bdir, "go.sum")
# keep sums appended by earlier builds (porcupine), but refresh the repo part
keep = ""
if os.path.exists(sumpath):
    have = set(sumsrc.splitlines())
    keep = "".join(l + "\n" for l in open(sumpath).read().splitlines() if l and l not in have)
new = sumsrc + keep
if not os.path.exists(sumpath) or open(sumpath).read() != new:
    open(sumpath, "w").write(new)

# --- overlay ----------------------------------------------------------------
rep = {}

def add_tree(src, dst, prefix=""):
    if not os.path.isdir(src):
        return
    for root, dirs, files in os.walk(src):
        dirs.sort()
        for f in sorted(files):
            if not f.endswith(".go") and not f.endswith(".pem") and not f.endswith(".json") and not f.endswith(".txt"):
                continue
            rel = os.path.relpath(os.path.join(root, f), src)
            d, b = os.path.split(rel)
            rep[os.path.join(dst, d, prefix + b)] = os.path.join(root, f)

add_tree(os.path.join(ov, "verifsim"), os.path.join(repo, "internal", "verifsim"))
add_tree(os.path.join(ov, "ctlog"), os.path.join(repo, "internal", "ctlog"), "zz_verif_")
add_tree(os.path.join(ov, "witness"), os.path.join(repo, "internal", "witness"), "zz_verif_")
add_tree(os.path.join(ov, "root"), repo, "zz_verif_")
for c in ("partial-aftersun", "skylight", "sunlight", "recompute-cache"):
    add_tree(os.path.join(ov, "cmd", c), os.path.join(repo, "cmd", c), "zz_verif_")

if engine == "fs":
    # C13: compile local.go and durable/path.go against the simulated os.
    gen = os.path.join(bdir, "fsgen")
    os.makedirs(gen, exist_ok=True)
    for rel, out in (("internal/ctlog/local.go", "local.go"), ("internal/durable/path.go", "path.go")):
        src = open(os.path.join(repo, rel)).read()
        n1 = len(re.findall(r'^\s*"os"\s*$', src, flags=re.M))
        if n1 != 1:
            print("mkoverlay: unexpected os import shape in", rel, file=sys.stderr)
            sys.exit(2)
        src = re.sub(r'^(\s*)"os"\s*$', r'\1os "filippo.io/sunlight/internal/verifsim/simos"', src, flags=re.M)
        src = src.replace('"filippo.io/sunlight/internal/immutable"', 'immutable "filippo.io/sunlight/internal/verifsim/simos/simimmutable"')
        p = os.path.join(gen, out)
        if not os.path.exists(p) or open(p).read() != src:
            open(p, "w").write(src)
        rep[os.path.join(repo, rel)] = p

if engine == "seq":
    # Yield points before every acquisition of poolMu (the lock that orders
    # submissions against pool rotation): the simulator decides who gets the
    # lock first. Inserted into a build-time copy of the CURRENT ctlog.go, so a
    # changed tree is rewritten the same way; when the shape is not recognised
    # nothing is inserted and the build goes on without yields.
    gen = os.path.join(bdir, "seqgen")
    os.makedirs(gen, exist_ok=True)
    rel = "internal/ctlog/ctlog.go"
    src = open(os.path.join(repo, rel)).read()
    new, n = re.subn(r'^([ \t]*)(\w+)\.(poolMu|rootsMu)\.Lock\(\)[ \t]*$', r'\1verifYield(&\2.\3)\n\1\2.\3.Lock()', src, flags=re.M)
    # ... and after every close(x.done): the goroutines that wait for a pool may
    # run before the closing goroutine goes on (the simulator's workers have one
    # P, so without this the closer always finishes what follows first)
    new, n2 = re.subn(r'^([ \t]*)(close\([\w.]+\.done\))[ \t]*$', r'\1\2\n\1verifYieldPoint()', new, flags=re.M)
    n += n2
    new, n3 = re.subn(r'^([ \t]*)defer (close\([\w.]+\.done\))[ \t]*$', r'\1defer func() { \2; verifYieldPoint() }()', new, flags=re.M)
    n += n3
    if n > 0:
        p = os.path.join(gen, "ctlog.go")
        if not os.path.exists(p) or open(p).read() != new:
            open(p, "w").write(new)
        rep[os.path.join(repo, rel)] = p

json.dump({"Replace": rep}, open(os.path.join(bdir, "overlay-%s.json" % engine), "w"), indent=1, sort_keys=True)
