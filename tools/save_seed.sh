#!/bin/bash
# usage: tools/save_seed.sh <id> <prop> <srcdir> <demo_path> "<pkgs>" "<needs>" "<caught>"
cd /verif
d=seeded/$1; mkdir -p $d; cp $3/patch.diff $d/patch.diff; cp $3/demo_test.go $d/demo_test.go; cp $3/notes.md $d/notes.md
python3 - "$d" "$2" "$4" "$5" "$6" "$7" <<'PY'
import json,sys
d,prop,demo,pkgs,needs,caught=sys.argv[1:]
json.dump({"breaks_property":prop,"origin":"sub-agent given only the property text and a scratch worktree","demo_path":demo,"demo_run":"Demo","test_pkgs":pkgs.split(),"needs_to_manifest":needs,"caught_by":caught},open(d+'/meta.json','w'),indent=1)
PY
