#!/bin/bash
# Build every engine once so that later checks only recompile what changed.
set -u
cd "$(dirname "$0")/.."
rc=0
for e in $(python3 -c "
import sys; sys.path.insert(0,'tools')
from props import PROPS
es=[]
for p in PROPS.values():
    for e in [p['engine']]+p.get('also_build',[]):
        if e not in es: es.append(e)
print(' '.join(es))"); do
  echo "building $e" >&2
  tools/build.sh "$e" || rc=2
done
exit $rc
