#!/bin/bash
# usage: tools/confirm_seed.sh <seeded-dir> -- confirms in a scratch worktree that the change compiles, the existing
# tests of the touched packages pass with it, and the demonstration fails with it and passes without it.
# Writes <seeded-dir>/confirm.log and prints a one-line verdict.
set -u
d=$(readlink -f "$1")
export GOFLAGS=-mod=mod GOPROXY=off GOSUMDB=off GOTOOLCHAIN=local
place=$(python3 -c "import json;print(json.load(open('$d/meta.json'))['demo_path'])")
pkgs=$(python3 -c "import json;print(' '.join(json.load(open('$d/meta.json'))['test_pkgs']))")
run=$(python3 -c "import json;print(json.load(open('$d/meta.json')).get('demo_run','Demo'))")
wt=/tmp/confirm-$$
git -C /repo worktree add -q --detach $wt HEAD || exit 2
log=$d/confirm.log; : > $log
cd $wt
cp $d/demo_test.go $wt/$place
demopkg=./$(dirname $place)
echo "== demo on clean tree" >> $log
go1.26.8 test -vet=off -count=1 -run "$run" $demopkg >> $log 2>&1; clean=$?
git apply $d/patch.diff >> $log 2>&1 || patch -p1 -s < $d/patch.diff >> $log 2>&1 || { echo "patch does not apply" | tee -a $log; cd /; git -C /repo worktree remove --force $wt; exit 2; }
echo "== build with patch" >> $log
go1.26.8 build ./... >> $log 2>&1; build=$?
echo "== demo with patch" >> $log
go1.26.8 test -vet=off -count=1 -run "$run" $demopkg >> $log 2>&1; patched=$?
rm -f $wt/$place
echo "== existing tests with patch: $pkgs" >> $log
go1.26.8 test -json -vet=off -count=1 $pkgs > $log.suite.json 2>>$log
suite=$(python3 - $log.suite.json <<'PY'
import json,sys
base=set(json.load(open('/root/.vp/BASELINE.json'))['stable_pass'])
bad=[]
for l in open(sys.argv[1]):
    try: e=json.loads(l)
    except Exception: continue
    if e.get('Action')=='fail' and e.get('Test'):
        name=e['Package']+'::'+e['Test']
        if name in base: bad.append(name)
open(sys.argv[1]+'.bad','w').write('\n'.join(sorted(set(bad))))
print(len(set(bad))); sys.stderr.write('stable tests failing with patch: %s\n'%bad)
PY
)
# a test that failed may be a load flake of this sandbox (start-up waits of 10 s): re-run each alone, up to 3 times
if [ "$suite" != "0" ]; then
  still=0
  for t in $(cat $log.suite.json.bad); do
    pkg=${t%%::*}; name=${t##*::}; ok=1
    # tests that shell out to `go run` wait only 10 s for it: warm the build cache first
    (go build -o /dev/null ./cmd/... ; PATH=/opt/veriftools/go1.26.8/bin:$PATH go build -o /dev/null ./cmd/...) >/dev/null 2>&1
    for try in 1 2 3; do
      if PATH=/opt/veriftools/go1.26.8/bin:$PATH go1.26.8 test -vet=off -count=1 -run "^${name}\$" "$pkg" >> $log 2>&1; then ok=0; break; fi
    done
    echo "re-run of $t alone: $([ $ok = 0 ] && echo passes || echo FAILS)" >> $log
    [ $ok = 0 ] || still=$((still+1))
  done
  suite=$still
fi
rm -f $log.suite.json $log.suite.json.bad
cd /
chattr -R -i $wt 2>/dev/null
git -C /repo worktree remove --force $wt
v="build=$build demo_clean=$clean(want 0) demo_patched=$patched(want !=0) suite=$suite(want 0)"
echo "$v" | tee -a $log
python3 - "$d" "$build" "$clean" "$patched" "$suite" <<'PY'
import json,sys
d,b,c,p,s=sys.argv[1],*map(int,sys.argv[2:])
m=json.load(open(d+'/meta.json'))
m['confirmed']={'build_ok':b==0,'demo_passes_without':c==0,'demo_fails_with':p!=0,'existing_tests_pass_with':s==0}
json.dump(m,open(d+'/meta.json','w'),indent=1)
PY
