"""Per-property configuration of the check driver."""

COMPONENTS = {
    "real": [
        "internal/ctlog: CreateLog, LoadLog, addLeafToPool, RunSequencer (real ticker on the fake clock), sequence, sequencePool, applyStagedUploads, uploadIssuer, signTreeHead, cache.go on a real SQLite file, http.go handlers",
        "sunlight (root package): tile/leaf codec, checkpoint signer and verifier",
        "torchwood, golang.org/x/mod/sumdb/{note,tlog}, certificate-transparency-go, crawshaw.io/sqlite, filippo.io/mldsa",
    ],
    "stubbed": [
        "object storage (ctlog.Backend): in-memory map with atomic read-after-write effects, applied/not-applied failures decided by the scheduler",
        "lock store (ctlog.LockBackend): in-memory CAS register",
        "wall clock (timeNowUnixMilli) and timers: testing/synctest fake clock plus a fault offset",
        "process death: incarnation frozen at its seams; cmd/sunlight main() wiring not run",
    ],
    "assumptions": [
        "object storage is read-after-write consistent and effects are atomic and take place between invocation and return",
        "the lock store itself is a correct CAS register (decided separately by C05)",
        "power loss of the cache SQLite file is not modelled (only deletion/rollback between incarnations)",
        "interleavings are explored at storage/lock-operation granularity; data races inside a step are not",
        "sampling: a clean batch is evidence, not proof",
    ],
}

SEQ = {"engine": "seq", "quick_budget": 50, "thorough_budget": 900}

PROPS = {
    "C01": dict(SEQ, expect_probes=["effect.publish", "effect.lock.replace", "prefix.checked", "reload.ok", "fault.clock", "crash.inflight"]),
    "C02": dict(SEQ),
    "C03": dict(SEQ, expect_probes=["crash.inflight", "crash.loading-inflight", "crash.inflight.applied", "crash.inflight.lost", "reload.ok"]),
    "C04": dict(SEQ),
}
