"""Per-property configuration of the check driver and source of MANIFEST.json."""

COMPONENTS = {
    "real": [
        "internal/ctlog: CreateLog, LoadLog, addLeafToPool, RunSequencer (real ticker on the fake clock), sequence, sequencePool, applyStagedUploads, uploadIssuer, signTreeHead, cache.go on a real SQLite file, http.go handlers",
        "sunlight (root package): tile/leaf codec, checkpoint signer and verifier",
        "torchwood, golang.org/x/mod/sumdb/{note,tlog}, certificate-transparency-go, crawshaw.io/sqlite (finalizer panic replaced by Close in the harness build), filippo.io/mldsa",
    ],
    "stubbed": [
        "object storage (ctlog.Backend): in-memory map with atomic read-after-write effects; ok / error-applied / error-not-applied decided by the scheduler",
        "lock store (ctlog.LockBackend): in-memory CAS register",
        "wall clock (timeNowUnixMilli) and all timers: testing/synctest fake clock plus a fault offset (stall, step back, jump)",
        "process death: incarnation frozen at its seams, only object map, lock map and cache file survive; cmd/sunlight main() wiring not run",
    ],
    "assumptions": [
        "object storage is read-after-write consistent and effects are atomic and take place between invocation and return",
        "the lock store itself is a correct CAS register (decided separately by C05)",
        "power loss of the cache SQLite file is not modelled (only deletion/rollback between incarnations)",
        "interleavings are explored at storage/lock-operation granularity; data races inside a step are not",
        "sampling: a clean batch is evidence, not proof",
    ],
}

SEQ_NOTE = ("Trusted: the harness's reference model (RFC 6962 tree, tile layout, leaf codec, note parser written from the specs), "
            "crypto/ecdsa, ct-go's signature verifier, Go's testing/synctest. Storage effects are atomic and read-after-write; "
            "the lock store is assumed linearizable (C05). Bounded: <= 500 scheduler steps per run, <= 4 crashes, trees up to ~1500 leaves "
            "(65k in the thorough tier). Sampling, not exhaustive.")

ENGINES = [
    {"name": "seq", "path": "overlay/verifsim/seq", "serves_properties": ["C01", "C02", "C03", "C04", "C06", "C07", "C08", "C11", "C17"],
     "kind_free_text": "deterministic simulator: real ctlog.Log instances under a seeded scheduler that owns storage, lock store, clock, crashes"},
]

SEQ = {"engine": "seq", "quick_budget": 50, "thorough_budget": 900, "level_note": SEQ_NOTE}

PROPS = {
    "C01": dict(SEQ,
        level_text="Seeded search over simulated histories (submissions, rounds, every fault placement applied/not applied, crashes, restarts, clock stall/back/jump) of the real sequencer; every lock-store commit and every effective checkpoint upload is recorded, verified independently and checked for size/time monotonicity, lock-before-publish, and MTH-prefix against leaves read back from storage with an independent decoder. Exploration is the right level: the property quantifies over unbounded histories and fault sequences.",
        expect_probes=["effect.publish", "effect.lock.replace", "prefix.checked", "reload.ok", "fault.clock", "crash.inflight"]),
    "C02": dict(SEQ,
        level_text="Every acknowledgement is checked at the scheduler step it is delivered against the durable object map: published checkpoint covers the index, stored leaf equals the submitted entry with the acknowledged timestamp; re-checked after every crash/reload and at the end; HTTP acknowledgements additionally get their SCT verified with ct-go over an independently built leaf. An operation released after its caller's deadline passed on the fake clock returns the context error (stalls are biased to the 1 s strict-timeout operations).",
        expect_probes=["effect.publish", "crash.inflight"]),
    "C03": dict(SEQ,
        level_text="Crashes are injected at every scheduler step kind (between any two storage/lock operations, with an arbitrary subset of in-flight mutating operations applied), including during LoadLog's own recovery; after faults stop the log must reload, hold every committed tile, keep every acknowledged entry and sequence a fresh entry; staging discards are checked against the published checkpoint at the instant they take effect. Crash subsets are drawn as independent coins, all-but-one or only-one; faults are biased to the staging read of recovery; a sixteenth of the runs contain one bulk burst (more than 64 parallel tile uploads).",
        expect_probes=["crash.inflight", "crash.loading-inflight", "crash.inflight.applied", "crash.inflight.lost", "reload.ok"]),
    "C04": dict(SEQ,
        level_text="Write-time monitors on every effective storage operation (immutable objects never rewritten, nothing but staging discarded, canonical keys and metadata) and a full independent audit of the durable object map at the instant each checkpoint upload takes effect: every required tile present, byte-exact against the reference rendering, leaf i has index i and a timestamp <= tree head, issuers present, names tiles consistent with an independent parse. A sixteenth of the runs contain one bulk burst of 5400-6600 cheap entries (more than 64 tile uploads in flight in one round or recovered bundle); a quarter have yield points before poolMu.",
        expect_probes=["effect.publish"]),
}

PROPS.update({
    "C06": dict(SEQ,
        level_text="Two or three real Log instances with the same key on one simulated lock store and storage, started at arbitrary steps (also while another instance is between its CAS and its uploads, so that recovery runs concurrently), interleaved at storage/lock-operation granularity with slow-node faults; oracle: no fork and append-only history over the union of all checkpoints, a CAS loser stops with the fatal error, acknowledges nothing from that round and commits nothing afterwards; at the end of every run eleven start-up states built from the final durable state (lock behind storage, same size/different root, foreign name/key, missing checkpoint, lock ahead without staging, checkpoint from the future, CreateLog over an existing log) must be refused while the unmodified twin loads.",
        expect_probes=["cas.lost", "probe.twin", "probe.lock-behind-storage", "fault.slow"]),
    "C07": dict(SEQ,
        level_text="Duplicate submissions (same item resubmitted, client retries of failed submissions) in every phase of a round, with cache faults between incarnations (deleted, rolled back to a snapshot, converted to the legacy 128-bit table, rebuilt by the built cmd/recompute-cache binary from a materialised copy of the simulated storage, the log key being derived from a seed file the way cmd/sunlight does); oracle: within a cache epoch all acknowledgements of an entry carry one (index, timestamp); an entry that is pending or acknowledged in the epoch is never admitted again; leaves per entry <= admissions minus evictions; every acknowledgement from any cache source satisfies the C02 storage oracle; after the recompute-cache binary rebuilt the cache, resubmissions of entries it read (prefill entries included) are answered with an occurrence it read. Cache read faults (the table renamed away and back around a resubmission) must fail the submission, never admit it as new; in a quarter of the runs goroutines park before every acquisition of poolMu (yield points inserted into a build-time copy of ctlog.go) so that the scheduler orders submissions against the pool rotation. The workload contains precertificate twins: the same TBS under another issuer key (a distinct entry) and the same entry in another pre_certificate encoding (must deduplicate).",
        expect_probes=["fault.cache.delete", "fault.cache.rollback", "fault.cache.legacy", "fault.cache.recompute"]),
    "C08": dict(SEQ,
        level_text="After a simulated prefix, objects are deleted, truncated, bit-flipped, extended, swapped, rolled back or (data tiles, also inside staging bundles) re-encoded well-formed with one leaf changed (biased towards the newest data tile, the right-edge tiles, checkpoint and staging bundles that recovery reads), combined with crashes, restarts and further sequencing; oracle: every checkpoint committed to the lock store afterwards has root MTH(pre-tamper leaves ++ entries sunlight itself staged afterwards), those entries are submitted ones with the right indexes, and every acknowledgement names such an index. Refusing to load or stopping is accepted.",
        expect_probes=["fault.tamper.flip", "fault.tamper.delete", "fault.tamper.recode", "tamper.commit.checked", "tamper.refused"]),
    "C11": dict(SEQ,
        level_text="Signing half: every checkpoint committed in the simulated histories (all sizes, roots and timestamps they reach) must open with the public verifier, carry the ML-DSA cosignature, embed the round's clock reading and verify with ct-go's independent verifier over the rebuilt tree head; equal tree heads give equal signature bytes. Strictness half: each committed checkpoint is corrupted by 14 structure-aware mutators and whenever sunlight's note verifier accepts, the independent verifier must accept the same (origin,size,root,timestamp). Every committed tree head is signed a second time (equal RFC 6962 signature bytes required) and one injected-signer object is asked to sign texts its signature does not cover (whatever it signs must open with the public verifier). The strictness half is a function of bytes: simulation only supplies the inputs; stated here as exploration over inputs.",
        expect_probes=["c11.mutation.timestamp", "c11.mutation.blob-trailing-byte"]),
    "C17": dict(SEQ,
        level_text="Arrival orders of high/low-priority/duplicate submissions against pool sizes 1..12 with ticks, failing rounds, stops and the read-only date crossed on the fake clock; the eviction victim is chosen by the scheduler (the low-priority map is narrowed to one candidate for the step). Oracle: occupancy never above the limit, rate-limit and eviction rules per admission, exactly one eviction per high-priority admission at a full pool, exactly one outcome per submitter, nobody left waiting after a stop, nothing acknowledged or signed after a stop, progress within a bounded number of steps once faults stop. Each run ends with an unnarrowed eviction burst (k>=2 low-priority entries in a full pool, one high-priority arrival) judged by counts only: exactly one eviction, k-1 low-priority entries left, everybody else sequenced. A round refused by the time guard must stop the sequencer; a submitter that panics got no outcome.",
        expect_probes=["evict.admission", "evict.narrowed", "stop", "sunset.stopped"]),
})

FS_NOTE = ("Trusted: the simulated file system's persistence model (simos): write/chmod volatile until fsync of the file, directory-entry changes "
           "volatile until fsync of the containing directory (strict POSIX) or until any later fsync (ordered journal); rename atomic; no symlinks, no hard links. "
           "local.go and durable/path.go are compiled unchanged except for the import path of package os. Process crash without power loss is not modelled.")
PROPS["C13"] = {
    "engine": "fs", "quick_budget": 45, "thorough_budget": 600, "level_note": FS_NOTE,
    "also_build": ["seq"], "post_thorough": ["tools/strace_fidelity.py"],
    "level_text": "The real LocalBackend.Upload/Fetch/Discard and internal/durable run over an in-memory file system in which every system call is a scheduling and fault point (EIO, ENOSPC, short write, failing fsync/close) and 1-3 concurrent callers are interleaved call by call; after every call (sweep profiles) power-loss images are taken -- every subset of the un-synced directory changes when there are <= 6, seeded subsets beyond, three data variants (lost, complete, torn) -- mounted and read back. Oracle: acknowledged objects complete in every image, never a partial object under a final name, readers see old or new, immutable re-upload rules, keys confined, and an operation budget turns endless loops into failures.",
    "expect_probes": ["crash.images", "concurrent.parked", "fault.EIO.fsync", "fault.short.write"],
    "real": ["internal/ctlog/local.go (LocalBackend.Upload/Fetch/Discard, compareFile) and internal/durable/path.go (WriteFile, MkdirAll, Mkdir), compiled against the simulated os package", "path/filepath (Localize, Join, Clean)"],
    "stubbed": ["package os -> verifsim/simos (in-memory file system with volatile and durable layers)", "internal/immutable -> inode flag in simos", "callers: generated uploads/fetches/discards instead of the sequencer"],
    "assumptions": ["the persistence model of simos (see level_note)", "sampling: a clean batch is evidence, not proof"],
}
ENGINES.append({"name": "fs", "path": "overlay/verifsim/fs + overlay/verifsim/simos", "serves_properties": ["C13"],
    "kind_free_text": "LocalBackend and internal/durable over a simulated file system; syscall-level scheduling, I/O faults, power-loss images"})

LOCK_NOTE = ("Trusted: SQLite itself (statement atomicity, file locking between connections), the in-process DynamoDB and S3 fakes (written from the API "
             "documentation: GetItem/PutItem with ConditionExpression and ConsistentRead; GET/PUT with MD5 ETags, If-Match, Tigris' empty If-Match), porcupine. "
             "Real: the three backends, crawshaw.io/sqlite on a real file, the AWS SDK v2 including its retryer over in-memory connections. "
             "A sixteenth of the SQLite runs (a quarter in the thorough tier) use separate OS processes, one per client, driven in lock-step over pipes (cross-process visibility and reopen; no true parallelism). Not decided: durability of the SQLite file across power loss (synchronous=FULL).")
PROPS["C05"] = {
    "engine": "lock", "quick_budget": 45, "thorough_budget": 600, "level_note": LOCK_NOTE,
    "level_text": "2-4 scripted clients issue Create/Fetch/Replace with unique values (also empty and NUL-containing) against the real SQLite, DynamoDB and ETag backends; the scheduler orders every request at the fake service (or every SQL statement start, through crawshaw's tracer) and injects 500/503, connections cut before or after the effect (lost response, SDK retry of a conditional write) and stale reads for non-consistent GetItem; invoke/return are stamped with the event sequence number and the history per log id is checked with porcupine against a nondeterministic CAS-register model (fault-free operations have strict outcomes; a faulted error may or may not have taken effect), plus direct assertions (not-found error identity, byte-exact round trip, a fresh connection sees the last committed value).",
    "expect_probes": ["porcupine.ok", "concurrent.ops", "fault.cut-after.ddb.PutItem", "fault.cut-after.s3.PUT", "fault.stale.ddb.GetItem", "reopen", "reopen.process"],
    "real": ["internal/ctlog/sqlite.go, dynamodb.go, etag.go", "crawshaw.io/sqlite on a real database file (several connections)", "aws-sdk-go-v2 (dynamodb, s3, config, retry) over net.Pipe connections inside a synctest bubble"],
    "stubbed": ["DynamoDB and S3 services: protocol-level in-process fakes", "network: net.Pipe; faults decided by the scheduler", "separate processes: mostly connections/goroutines in one process; child processes in lock-step in the sqlite+processes profile"],
    "assumptions": ["the fakes implement the documented conditional-write semantics", "SQLite's own locking and durability are trusted", "sampling: a clean batch is evidence, not proof"],
}
ENGINES.append({"name": "lock", "path": "overlay/verifsim/lock", "serves_properties": ["C05"],
    "kind_free_text": "real lock backends under scripted concurrent clients; request-level scheduling and faults at protocol-level fakes; porcupine"})

WIT_NOTE = ("Trusted: the reference Merkle model and note parser, torchwood's cosignature verifiers (used to check returned signatures) and proof generators (used on the client side only), "
            "the simulated lock store (linearizable, C05) and object store (atomic, read-after-write). Real: internal/witness handlers via ServeHTTP, NewWitness, PullLogList. "
            "A crash is delivered between operations or inside a locked section as failures-then-death; HTTP transport, timeouts of a real server and cmd/sunlight wiring are not run.")
WIT = {"engine": "wit", "quick_budget": 45, "thorough_budget": 900, "level_note": WIT_NOTE,
       "real": ["internal/witness: NewWitness, PullLogList, add-checkpoint, add-entries, sign-subtree handlers (ServeHTTP in-process)", "torchwood, golang.org/x/mod/sumdb/{note,tlog}, filippo.io/mldsa, internal/xaes256gcm"],
       "stubbed": ["lock store and object store: in-memory, faults (applied / not applied) decided by the scheduler", "HTTP transport: handlers invoked directly; request bodies are readers that park between entry packages", "the logs: ground-truth logs with one fork, generated by the harness"],
       "assumptions": ["lock store linearizable (C05), object store atomic and read-after-write", "sampling: a clean batch is evidence, not proof"]}
PROPS["C14"] = dict(WIT,
    level_text="Adversarial add-checkpoint histories over ground-truth logs with a fork (every kind of single defect: unknown origin, foreign key, old-size mismatch, wrong/foreign-fork/truncated proof, malformed and non-canonical numbers, extension lines), with lock/storage faults applied or not applied on every operation, crashes inside requests and restarts; oracle from the lock-store history and the HTTP answers: recorded sizes never decrease, every recorded tree is a prefix of one branch and consistent with the previous one, 200 answers are exactly the two verifying witness cosignatures over the re-encoded checkpoint and only after the commit, no signature after a failed or unknown-outcome CAS, one-defect requests get exactly the protocol's status; the released cosignature lines themselves must be in a value committed to the lock store.",
    expect_probes=["resp.addckpt.200", "resp.addckpt.409", "resp.addckpt.422", "resp.addckpt.403", "fault.nonyield.err-applied.lreplace", "crash"])
PROPS["C15"] = dict(WIT,
    level_text="Interleaved add-checkpoint and add-entries requests (request bodies park between entry packages, tile uploads park at the storage seam, so uploads race each other and checkpoint updates), arbitrary ranges, unaligned starts, truncated bodies, wrong entries/proofs, stale and forged tickets, gzip bodies, faults and restarts; at every effective write of the mirror checkpoint and every 200 answer the mirror storage must serve the complete signed tree (every full tile, right-edge partial or its full extension, entries equal to the log's, root equal), size never above the pending checkpoint, never decreasing; after a final restart an upload from the mirror size must be accepted. Half of the two-log runs mirror both logs; a quarter run a second witness process on the same lock store and storage that also receives uploads.",
    expect_probes=["resp.addentries.200", "resp.addentries.409", "servable.checked", "resume.ok", "concurrent.requests", "fault.body.cut", "script.cut-tile", "script.cut-tile.retry"])
PROPS["C16"] = dict(WIT,
    level_text="sign-subtree requests over checkpoints that were really cosigned in the simulated histories (witness only, mirror only, both) and over none/foreign/forged/corrupted ones, all range shapes (also from 0 to far beyond the size) and correct/incorrect hashes and proofs (also the checkpoint root offered for a part of the tree without a proof); oracle: signatures are returned only for a valid subtree within the size whose hash is the reference subtree hash, exactly by those own ML-DSA keys whose cosignature on the presented checkpoint verifies, and each returned line verifies with the public subtree verifier. The handler is stateless: the simulation contributes the supply of genuinely cosigned checkpoints; stated as exploration over inputs.",
    expect_probes=["resp.subtree.200", "subtree.signed", "resp.subtree.422", "resp.subtree.403"])
ENGINES.append({"name": "wit", "path": "overlay/verifsim/wit", "serves_properties": ["C14", "C15", "C16"],
    "kind_free_text": "real witness/mirror handlers over simulated lock and object stores; adversarial request generator over forked ground-truth logs"})

PROPS["C12"] = {
    "engine": "client", "quick_budget": 45, "thorough_budget": 600,
    "level_note": "Trusted: the reference model that renders the ground-truth log (tiles, data tiles, checkpoints signed through sunlight's own signer), ct-go's TLS marshalling of SCTs, Go's net/http. Real: sunlight.Client (HTTP mode) with torchwood's fetcher, retries, Retry-After handling, timeouts and concurrency limit on the fake clock, over a real http.Transport on in-memory connections (transparent gzip decoding, short bodies, dropped connections). The tree head handed to the client is authentic; file:// and gzip+file:// modes run without a scheduler (one damaged file per call); archive+file:// and the permanent cache are not exercised.",
    "level_text": "The real client's Entries, AllEntries, Entry, CheckInclusion and Checkpoint run against an in-process log whose every response is decided by the scheduler: bit flips, truncation, trailing bytes, another tile of the same log (other index, other level, narrower or wider partial), the same tile of a forked log signed by the same key, gzip damage, short bodies, 404/429/503 with Retry-After, stalls past the timeout, dropped connections, reordered concurrent responses; older-but-valid, foreign-key, corrupted and extension-spliced checkpoints; authentic logs that hold a copy of an earlier leaf at a later position (the committed leaf's own index differs from its position), a third of the runs with AllowRFC6962ArchivalLeafs set; SCTs that are valid or wrong in log id, timestamp, index (also: rewritten to the position of a duplicated leaf), signature, extension encoding, or issued for the forked leaf. Oracle: every yielded/returned entry has exactly the Merkle-covered fields of the ground-truth leaf at that index, an SCT is confirmed only if valid, a checkpoint is returned only if a served body signed by the configured key states it; without faults the whole log is yielded.",
    "expect_probes": ["complete.allentries", "complete.entries", "inclusion.confirmed", "checkpoint.ok", "fault.fork", "fault.subst", "fault.gzflip", "fault.429", "fault.stall", "concurrent.requests", "entry.misindexed"],
    "real": ["sunlight.Client (client.go), tile.go codec, checkpoint.go verifier", "torchwood client and tile fetcher (retries, backoff, timeouts, concurrency limit)", "net/http client transport over in-memory connections"],
    "stubbed": ["the log server: in-process handler rendering objects from the reference model, responses decided by the scheduler", "network: net.Pipe", "clock and timers: testing/synctest"],
    "assumptions": ["the tree head given to the client is authentic (the property's premise)", "sampling: a clean batch is evidence, not proof"],
}
ENGINES.append({"name": "client", "path": "overlay/verifsim/client", "serves_properties": ["C12"],
    "kind_free_text": "real sunlight.Client against a scheduler-controlled adversarial Static CT server on the fake clock"})

PROPS["C18"] = {
    "engine": "gc", "quick_budget": 45, "thorough_budget": 600,
    "level_note": "Trusted: the reference tile layout (required tiles of a tree of size n), os directory walking. Real: cleanDir, overrideImmutable, logSize, mirroredLogSize called in-package in the order main() uses, and the built partial-aftersun binary on a quarter of the runs; the log directories are written by the real sequencer over the real LocalBackend (seeded histories of rounds that leave partials behind, optionally a round that dies after its lock commit and tile uploads), mirror directories by the reference model. The immutable inode flag is not in effect on the scratch file system (tmpfs).",
    "level_text": "The property has no schedule or clock in it; what varies is the directory. Directories come from seeded histories of real sequencing rounds around every tile-level boundary (1..1025, and 65535..65795 in a fraction of runs), with the lock store ahead of storage, leftovers of crashed durable writes, unknown files, full tiles lost or replaced by directories, files named like partial directories; oracle: every removed path is a partial tile (or its emptied directory) whose full tile exists, is a non-empty regular file and lies strictly left of the right edge of the published size, nothing else changed or appeared, the trees at the published and at the lock checkpoint are still complete, and LoadLog plus a sequencing round succeed on the cleaned directory; with a published checkpoint that does not verify under the log key (size line altered, or signed by another key) nothing may be removed. Exploration over generated directory histories, stated as such.",
    "expect_probes": ["removed.files", "tool.binary", "tool.inpackage", "reload.ok", "junk.empty-full", "junk.tempfile", "tool.error"],
    "real": ["cmd/partial-aftersun: cleanDir, overrideImmutable, logSize, mirroredLogSize (in-package) and the built binary", "internal/ctlog sequencer and LocalBackend (to produce the directories and to reload them)"],
    "stubbed": ["lock store: in-memory map", "mirror directories: rendered by the reference model instead of a running witness"],
    "assumptions": ["no concurrent writer while the tool runs", "sampling: a clean batch is evidence, not proof"],
    "rule": "one evaluation = one generated directory (seeded history of sequencing rounds / mirror uploads plus seeded junk) cleaned by the tool; non-trivial = the tool removed at least one file, or junk or a lock-ahead round was planted; distinct = distinct profile (sizes, lock-ahead, junk, kind) hash",
}
ENGINES.append({"name": "gc", "path": "overlay/cmd/partial-aftersun", "serves_properties": ["C18"],
    "kind_free_text": "in-package harness of cmd/partial-aftersun over directories produced by the real sequencer and LocalBackend"})

READ_REAL = ["cmd/skylight: the built binary (routing, headers, os.Root-confined file server, /health aggregation) over loopback; checkLog and witnessHealth.{loadVerifiers,hashes,check} in-package", "directories written by the real sequencer, the real witness/mirror handlers and LocalBackend", "sunlight.Client reading the log through the server"]
PROPS["C19"] = {
    "engine": "read", "quick_budget": 50, "thorough_budget": 600,
    "level_note": "The property has no schedule, clock or fault in it: it is a statement about every request path and directory. The server therefore runs as the built binary over loopback, outside the scheduler; what the simulation side contributes is the directories (real sequencer / witness / LocalBackend histories around tile boundaries, host-only and path-prefixed prefixes, witness and mirror trees) and a seeded adversarial request set. Requests carry a contact address, so the anonymous-client rate limiter (real time) never answers; the 429 path is not claimed. ACME/TLS wiring is not run (plain HTTP on loopback).",
    "level_text": "For each generated directory set the built skylight binary is started and asked for every path of the Static CT / witness / mirror layout (reference tile list for the size, issuers, metadata) plus traversal attempts, encoded dots and separators, doubled slashes, directories, dot-files, symlinks pointing outside, stray files, foreign hosts and prefixes; oracle: a 200 body is byte-for-byte the regular file inside the configured directory that the cleaned path names, never a listing, never outside; every layout path whose file exists answers 200 with the prescribed content type, gzip encoding and cache policy; an unmodified sunlight.Client verifies the whole log through the server. Exploration over inputs, stated as such.",
    "expect_probes": ["served.ok", "client.verified", "requests.hostile", "status.400", "status.300"],
    "real": READ_REAL, "stubbed": ["network: loopback TCP to the real binary (not scheduled)", "lock store for the generated logs: in-memory map"],
    "assumptions": ["no concurrent writer to the directories while they are served", "sampling: a clean batch is evidence, not proof"],
    "rule": "one evaluation = one generated set of directories served by the real binary and probed with the layout paths plus a seeded hostile request set; non-trivial = at least one hostile request was sent; distinct = distinct profile (sizes, witness/mirror, prefix shape) hash",
}
PROPS["C20"] = {
    "engine": "read", "quick_budget": 50, "thorough_budget": 600,
    "level_note": "Trusted: the health predicate the harness derives by construction (each case breaks known conditions). Real: checkLog and witnessHealth run in-package inside a synctest bubble, so the 5 s freshness bound and the read-only date (limit + 1 week + 3 s) are crossed on the fake clock, on directories written by the real sequencer and witness at simulated instants; /health aggregation (staging, naming the log) through the built binary on a sixth of the runs, with read-only logs as the healthy ones so that the verdict does not depend on wall-clock freshness.",
    "level_text": "Log states: healthy, stale by 5.1 s / much more, exactly 4.9 s and 5.0 s old, re-signed by another key, renamed origin, truncated or missing checkpoint, missing/garbage metadata, bad key, extension line; past the read-only date with matching final tree, mismatching root/size/timestamp, no final tree, and exactly at the grace boundary. Witness/mirror states: checkpoint under the wrong hash directory, unknown or empty verifier keys, mirror ahead of the pending checkpoint, right-edge tile missing or corrupt, pending checkpoint missing, mirror metadata missing. Oracle: green iff the constructed state satisfies every condition; a red /health names the broken log and ignores staging entries. In binary mode the state is changed under one running server (witness key rotated, mirror metadata removed, a log checkpoint replaced, restored) with a /health request after every change.",
    "expect_probes": ["case.stale-5.1", "case.fresh-5.0", "case.sunset-ok", "case.sunset-boundary", "wcase.mirror-ahead", "wcase.edge-corrupt", "health.aggregate.ok"],
    "real": READ_REAL, "stubbed": ["clock: testing/synctest (in-package part)", "lock store for the generated logs: in-memory map"],
    "assumptions": ["sampling: a clean batch is evidence, not proof"],
    "rule": "one evaluation = one run of 12-22 constructed directory states judged by the health functions on the fake clock (or one /health query of the binary over 2-4 logs); non-trivial = at least one state with a broken condition; distinct = distinct profile hash",
}
ENGINES.append({"name": "read", "path": "overlay/cmd/skylight + overlay/verifsim/dirgen", "serves_properties": ["C19", "C20"],
    "kind_free_text": "built skylight binary over loopback and in-package health functions on the fake clock, over directories from real sequencing/witness runs"})

PROPS["C09"] = dict(SEQ,
    level_text="Chains are built by construction from a deterministic CA hierarchy (issuer directly under a root, one or two intermediates, second root, precertificate signing certificate; NotAfter at start-1s, start, limit-1s, limit; serverAuth / clientAuth / no EKU; certificate vs precertificate; right or wrong endpoint; missing, swapped or extra chain elements; malformed JSON, base64, DER; with or without the root appended) and sent through the real add-chain / add-pre-chain handlers while the accepted root set is swapped by SetRootsFromPEM tasks whose _roots.pem upload can fail (applied or not) and the process crashes and restarts; acceptance is predicted from how the chain was built and from the modelled root set (memory vs persisted), never by re-running the validator; accepted entries must be stored as the leaf ct-go's MerkleTreeLeafFromChain derives (certificate or defanged TBS, issuer key hash also behind a precertificate signing certificate), with every chain certificate as a retrievable issuer; get-roots must equal the accepted set. The acceptance rules themselves are a function of the input: simulation supplies the constructed corpus and the stateful part (root reloads, persistence, issuer uploads under faults); stated as exploration over a constructed input family.",
    expect_probes=["chain.true.200", "chain.false.400", "roots.set", "roots.get"])
ENGINES[0]["serves_properties"].append("C09")

NOT_APPLICABLE = {
    "C10": "pure function of its input (codec bijections): no schedule, clock, fault, I/O or second party for a simulator to control; deciding it is input generation (property-based testing), which is outside this technique. See DESIGN.md §6.",
}
