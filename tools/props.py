"""Per-property configuration of the check driver and source of MANIFEST.json."""

COMPONENTS = {
    "real": [
        "internal/ctlog: CreateLog, LoadLog, addLeafToPool, RunSequencer (real ticker on the fake clock), sequence, sequencePool, applyStagedUploads, uploadIssuer, signTreeHead, cache.go on a real SQLite file, http.go handlers",
        "sunlight (root package): tile/leaf codec, checkpoint signer and verifier",
        "torchwood, golang.org/x/mod/sumdb/{note,tlog}, certificate-transparency-go, crawshaw.io/sqlite (finalizer panic replaced by Close in the harness build), filippo.io/mldsa",
    ],
    "stubbed": [
        "object storage (ctlog.Backend): in-memory map with atomic read-after-write effects; ok / error-applied / error-not-applied decided by the scheduler",
        "lock store (ctlog.LockBackend): in-memory CAS register",
        "wall clock (timeNowUnixMilli) and all timers: testing/synctest fake clock plus a fault offset (stall, step back, jump)",
        "process death: incarnation frozen at its seams, only object map, lock map and cache file survive; cmd/sunlight main() wiring not run",
    ],
    "assumptions": [
        "object storage is read-after-write consistent and effects are atomic and take place between invocation and return",
        "the lock store itself is a correct CAS register (decided separately by C05)",
        "power loss of the cache SQLite file is not modelled (only deletion/rollback between incarnations)",
        "interleavings are explored at storage/lock-operation granularity; data races inside a step are not",
        "sampling: a clean batch is evidence, not proof",
    ],
}

SEQ_NOTE = ("Trusted: the harness's reference model (RFC 6962 tree, tile layout, leaf codec, note parser written from the specs), "
            "crypto/ecdsa, ct-go's signature verifier, Go's testing/synctest. Storage effects are atomic and read-after-write; "
            "the lock store is assumed linearizable (C05). Bounded: <= 500 scheduler steps per run, <= 4 crashes, trees up to ~1500 leaves "
            "(65k in the thorough tier). Sampling, not exhaustive.")

ENGINES = [
    {"name": "seq", "path": "overlay/verifsim/seq", "serves_properties": ["C01", "C02", "C03", "C04"],
     "kind_free_text": "deterministic simulator: real ctlog.Log instances under a seeded scheduler that owns storage, lock store, clock, crashes"},
]

SEQ = {"engine": "seq", "quick_budget": 50, "thorough_budget": 900, "level_note": SEQ_NOTE}

PROPS = {
    "C01": dict(SEQ,
        level_text="Seeded search over simulated histories (submissions, rounds, every fault placement applied/not applied, crashes, restarts, clock stall/back/jump) of the real sequencer; every lock-store commit and every effective checkpoint upload is recorded, verified independently and checked for size/time monotonicity, lock-before-publish, and MTH-prefix against leaves read back from storage with an independent decoder. Exploration is the right level: the property quantifies over unbounded histories and fault sequences.",
        expect_probes=["effect.publish", "effect.lock.replace", "prefix.checked", "reload.ok", "fault.clock", "crash.inflight"]),
    "C02": dict(SEQ,
        level_text="Every acknowledgement is checked at the scheduler step it is delivered against the durable object map: published checkpoint covers the index, stored leaf equals the submitted entry with the acknowledged timestamp; re-checked after every crash/reload and at the end; HTTP acknowledgements additionally get their SCT verified with ct-go over an independently built leaf.",
        expect_probes=["effect.publish", "crash.inflight"]),
    "C03": dict(SEQ,
        level_text="Crashes are injected at every scheduler step kind (between any two storage/lock operations, with an arbitrary subset of in-flight mutating operations applied), including during LoadLog's own recovery; after faults stop the log must reload, hold every committed tile, keep every acknowledged entry and sequence a fresh entry; staging discards are checked against the published checkpoint at the instant they take effect.",
        expect_probes=["crash.inflight", "crash.loading-inflight", "crash.inflight.applied", "crash.inflight.lost", "reload.ok"]),
    "C04": dict(SEQ,
        level_text="Write-time monitors on every effective storage operation (immutable objects never rewritten, nothing but staging discarded, canonical keys and metadata) and a full independent audit of the durable object map at the instant each checkpoint upload takes effect: every required tile present, byte-exact against the reference rendering, leaf i has index i and a timestamp <= tree head, issuers present, names tiles consistent with an independent parse.",
        expect_probes=["effect.publish"]),
}

NOT_APPLICABLE = {
    "C10": "pure function of its input (codec bijections): no schedule, clock, fault, I/O or second party for a simulator to control; deciding it is input generation (property-based testing), which is outside this technique. See DESIGN.md §6.",
}
for _p in ["C05", "C06", "C07", "C08", "C09", "C11", "C12", "C13", "C14", "C15", "C16", "C17", "C18", "C19", "C20"]:
    NOT_APPLICABLE[_p] = "not claimed yet: the simulator for this property is still being built (see DESIGN.md §5 for the plan)"
