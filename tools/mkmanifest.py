#!/usr/bin/env python3
"""Regenerate MANIFEST.json from tools/props.py (single source of truth)."""
import json, os, sys
sys.path.insert(0, os.path.dirname(os.path.abspath(__file__)))
from props import PROPS, NOT_APPLICABLE, ENGINES

checks = []
for pid in sorted(PROPS):
    c = PROPS[pid]
    checks.append({
        "property_id": pid,
        "quick_cmd": "./check %s quick" % pid,
        "thorough_cmd": "./check %s thorough" % pid,
        "evidence_file": "/verif/evidence/%s.json" % pid,
        "replay_cmd_template": "./check %s --replay {path}" % pid,
        "engine": c["engine"],
        "level_claimed": {
            "category": "exploration",
            "text": c["level_text"],
            "design_ref": c.get("design_ref", "DESIGN.md §5 " + pid),
        },
        "level_note": c["level_note"],
        "technique": c.get("technique", "deterministic simulation with fault injection: seeded search over schedules and fault sequences, oracle = reference model + history checks"),
    })
m = {
    "version": 1,
    "setup_cmd": "tools/setup.sh",
    "hooks": {
        "guard": "verif",
        "enable": "go1.26.8 test -c -tags verif -modfile=/verif/.build/go.mod -overlay=/verif/.build/overlay-<engine>.json (harness files are compiled into /repo's packages through -overlay; nothing is written to /repo)",
        "baseline_off_cmd": "cd /repo && go test -mod=mod -json -vet=off -count=1 -timeout 25m ./...",
        "source_commits": [],
        "add_only": True,
    },
    "engines": ENGINES,
    "checks": checks,
    "not_applicable": [{"property_id": k, "reason": v} for k, v in sorted(NOT_APPLICABLE.items())],
    "notes": "All checks: ./check <ID> quick|thorough, VERIF_SEED selects the seed. Exit 2 = infrastructure problem, never a verdict. See DESIGN.md.",
}
json.dump(m, open(os.path.join(os.path.dirname(os.path.abspath(__file__)), "..", "MANIFEST.json"), "w"), indent=1)
print("wrote MANIFEST.json with", len(checks), "checks,", len(NOT_APPLICABLE), "not applicable")
